package main

import (
	"fmt"
	"strings"
)

// Sorts used in the encoding.
const (
	SBool = "Bool"
	SRef  = "(_ BitVec 32)"
	SStr  = "Str"
	SI64  = "(_ BitVec 64)"
	SI32  = "(_ BitVec 32)"
	SI16  = "(_ BitVec 16)"
	SI8   = "(_ BitVec 8)"
	STag  = "(_ BitVec 16)"
)

func bvSort(n int) string { return fmt.Sprintf("(_ BitVec %d)", n) }

func bvLit(v uint64, n int) string {
	if n < 64 {
		v &= (uint64(1) << uint(n)) - 1
	}
	return fmt.Sprintf("(_ bv%d %d)", v, n)
}

func arrSort(idx, el string) string { return "(Array " + idx + " " + el + ")" }

// binder is a universally/existentially bound variable in scope.
type binder struct{ name, sort string }

// Script accumulates the SMT-LIB text of one verification condition, in
// generation order, so that every obligation can be checked against exactly the
// prefix of definitions and assumptions that precede it in program order.
type Script struct {
	canonMemo map[string]string
	fresh     map[string]bool              // terms denoting references allocated by this execution (pairwise distinct)
	allocSeq  map[string]int               // allocation sequence number of each fresh term
	refStamp  map[string]int               // reference-valued terms read from memory: number of allocations made before the read
	seq       int
	lineTag   map[int]string               // line index -> tag of a droppable labelled hypothesis
	lineLoop  map[int]string               // line index -> allocation base of the loop body in which the hypothesis was assumed
	curLoop   string                       // set by the engine: allocation base of the loop body being executed
	defs      map[string]string            // defined name -> body (definitions without binders)
	elemFacts map[string]map[string]string // declared array -> literal index -> element term
	lines     []string
	declared  map[string]string // name -> sort text ("" for functions)
	n         int
	binders   []binder
	bytes     int
}

func newScript() *Script {
	s := &Script{declared: map[string]string{}, fresh: map[string]bool{}, allocSeq: map[string]int{}, refStamp: map[string]int{}, defs: map[string]string{}, elemFacts: map[string]map[string]string{}}
	s.lines = append(s.lines,
		"(declare-sort Str 0)",
	)
	return s
}

func (s *Script) add(l string) {
	s.lines = append(s.lines, l)
	s.bytes += len(l) + 1
}

func (s *Script) mark() int { return len(s.lines) }

func sanitize(x string) string {
	var b strings.Builder
	for _, r := range x {
		switch {
		case r >= 'a' && r <= 'z', r >= 'A' && r <= 'Z', r >= '0' && r <= '9', r == '_', r == '.':
			b.WriteRune(r)
		default:
			b.WriteByte('_')
		}
	}
	return b.String()
}

func (s *Script) freshName(prefix string) string {
	s.n++
	return fmt.Sprintf("%s!%d", sanitize(prefix), s.n)
}

func (s *Script) binderDecl() string {
	var b strings.Builder
	for i, x := range s.binders {
		if i > 0 {
			b.WriteByte(' ')
		}
		fmt.Fprintf(&b, "(%s %s)", x.name, x.sort)
	}
	return b.String()
}

func (s *Script) binderArgs() string {
	var b strings.Builder
	for _, x := range s.binders {
		b.WriteByte(' ')
		b.WriteString(x.name)
	}
	return b.String()
}

func (s *Script) binderSorts() string {
	var b strings.Builder
	for i, x := range s.binders {
		if i > 0 {
			b.WriteByte(' ')
		}
		b.WriteString(x.sort)
	}
	return b.String()
}

// declare introduces a fresh unconstrained symbol of the given sort and returns
// the term denoting it (a function of the binders in scope, if any).
func (s *Script) declare(prefix, sort string) string {
	name := s.freshName(prefix)
	if len(s.binders) == 0 {
		s.add(fmt.Sprintf("(declare-const %s %s)", name, sort))
		s.declared[name] = sort
		return name
	}
	s.add(fmt.Sprintf("(declare-fun %s (%s) %s)", name, s.binderSorts(), sort))
	return "(" + name + s.binderArgs() + ")"
}

// declareGlobal declares a named constant once (no binders).
func (s *Script) declareGlobal(name, sort string) string {
	if _, ok := s.declared[name]; !ok {
		s.declared[name] = sort
		s.add(fmt.Sprintf("(declare-const %s %s)", name, sort))
	}
	return name
}

func (s *Script) declareFun(name string, args []string, res string) {
	if _, ok := s.declared[name]; ok {
		return
	}
	s.declared[name] = ""
	s.add(fmt.Sprintf("(declare-fun %s (%s) %s)", name, strings.Join(args, " "), res))
}

func isAtom(t string) bool {
	return !strings.ContainsAny(t, " ") || (strings.HasPrefix(t, "(_ bv") && strings.Count(t, "(") == 1)
}

// define names a term (keeps the VC linear in the size of the program).
func (s *Script) define(prefix, sort, body string) string {
	if isAtom(body) || len(body) < 24 {
		return body
	}
	name := s.freshName(prefix)
	if len(s.binders) == 0 {
		s.add(fmt.Sprintf("(define-fun %s () %s %s)", name, sort, body))
		s.defs[name] = body
		return name
	}
	s.add(fmt.Sprintf("(define-fun %s (%s) %s %s)", name, s.binderDecl(), sort, body))
	return "(" + name + s.binderArgs() + ")"
}

func (s *Script) assume(t string) {
	if t == "true" {
		return
	}
	if len(s.binders) > 0 {
		mentions := false
		for _, b := range s.binders {
			if strings.Contains(t, b.name) {
				mentions = true
			}
		}
		if mentions {
			s.add(fmt.Sprintf("(assert (forall (%s) %s))", s.binderDecl(), t))
			return
		}
	}
	s.add("(assert " + t + ")")
}

func (s *Script) text(upto int) string {
	return strings.Join(s.lines[:upto], "\n") + "\n"
}

// assumeTagged is assume for a labelled hypothesis (a loop invariant clause, a callee's
// postcondition): obligations that name the hypotheses they use leave the others out.
func (s *Script) assumeTagged(tag, t string) {
	if t == "true" {
		return
	}
	n := len(s.lines)
	s.assume(t)
	if s.lineTag == nil {
		s.lineTag = map[int]string{}
	}
	for i := n; i < len(s.lines); i++ {
		if strings.HasPrefix(s.lines[i], "(assert ") {
			s.lineTag[i] = tag
			if s.curLoop != "" {
				if s.lineLoop == nil {
					s.lineLoop = map[int]string{}
				}
				s.lineLoop[i] = s.curLoop
			}
		}
	}
}

// addTagged adds a raw line carrying a tag (see assumeTagged).
func (s *Script) addTagged(tag, line string) {
	if s.lineTag == nil {
		s.lineTag = map[int]string{}
	}
	s.lineTag[len(s.lines)] = tag
	s.add(line)
}

// textUsing is text without the labelled hypotheses that match none of the names in using
// (a name matches a tag if it is the tag or its last components). Dropping hypotheses is sound.
func (s *Script) textUsing(upto int, using []string, inLoop string) string {
	if using == nil || len(s.lineTag) == 0 {
		return s.text(upto)
	}
	var b strings.Builder
	for i := 0; i < upto; i++ {
		if tag, ok := s.lineTag[i]; ok {
			if l, ok := s.lineLoop[i]; ok && l != inLoop {
				// assumed inside the body of a loop that this obligation is not in: about a state that
				// is gone (after a loop only its invariants at the loop head are known)
				continue
			}
			keep := false
			if i := strings.Index(tag, "@"); i >= 0 {
				tag = tag[:i] // the property attribution of a label is not part of its name
			}
			for _, u := range using {
				if tag == u || strings.HasSuffix(tag, "."+u) {
					keep = true
				}
			}
			if !keep {
				continue
			}
		}
		b.WriteString(s.lines[i])
		b.WriteString("\n")
	}
	return b.String()
}

// ---- boolean helpers with light simplification ----

func and(xs ...string) string {
	var ys []string
	for _, x := range xs {
		if x == "true" {
			continue
		}
		if x == "false" {
			return "false"
		}
		ys = append(ys, x)
	}
	switch len(ys) {
	case 0:
		return "true"
	case 1:
		return ys[0]
	}
	return "(and " + strings.Join(ys, " ") + ")"
}

func or(xs ...string) string {
	var ys []string
	for _, x := range xs {
		if x == "false" {
			continue
		}
		if x == "true" {
			return "true"
		}
		ys = append(ys, x)
	}
	switch len(ys) {
	case 0:
		return "false"
	case 1:
		return ys[0]
	}
	return "(or " + strings.Join(ys, " ") + ")"
}

func not(x string) string {
	switch x {
	case "true":
		return "false"
	case "false":
		return "true"
	}
	if strings.HasPrefix(x, "(not ") && strings.HasSuffix(x, ")") && balanced(x[5:len(x)-1]) {
		return x[5 : len(x)-1]
	}
	return "(not " + x + ")"
}

func balanced(x string) bool {
	d := 0
	for i, c := range x {
		switch c {
		case '(':
			d++
		case ')':
			d--
			if d < 0 {
				return false
			}
			if d == 0 && i != len(x)-1 {
				return false
			}
		case ' ':
			if d == 0 {
				return false
			}
		}
	}
	return d == 0
}

func implies(a, b string) string {
	if a == "true" {
		return b
	}
	if a == "false" || b == "true" {
		return "true"
	}
	return "(=> " + a + " " + b + ")"
}

func ite(c, a, b string) string {
	if c == "true" || a == b {
		return a
	}
	if c == "false" {
		return b
	}
	return "(ite " + c + " " + a + " " + b + ")"
}

func isBVLit(a string) bool { return strings.HasPrefix(a, "(_ bv") && strings.Count(a, "(") == 1 }

func eq(a, b string) string {
	if a == b {
		return "true"
	}
	if isBVLit(a) && isBVLit(b) {
		return "false"
	}
	return "(= " + a + " " + b + ")"
}

func sel(a, i string) string            { return "(select " + a + " " + i + ")" }
func sto(a, i, v string) string         { return "(store " + a + " " + i + " " + v + ")" }
func app(f string, xs ...string) string { return "(" + f + " " + strings.Join(xs, " ") + ")" }

// ---- term simplification (select over store / ite / constant arrays) ----

// splitApp splits "(op a b c)" into its top-level tokens.
func splitApp(t string) []string {
	if len(t) < 2 || t[0] != '(' || t[len(t)-1] != ')' {
		return nil
	}
	in := t[1 : len(t)-1]
	var toks []string
	depth := 0
	start := -1
	for i := 0; i < len(in); i++ {
		c := in[i]
		switch c {
		case '(':
			if depth == 0 && start < 0 {
				start = i
			}
			depth++
		case ')':
			depth--
			if depth == 0 {
				toks = append(toks, in[start:i+1])
				start = -1
			}
		case ' ':
			if depth == 0 && start >= 0 {
				toks = append(toks, in[start:i])
				start = -1
			}
		default:
			if depth == 0 && start < 0 {
				start = i
			}
		}
	}
	if start >= 0 {
		toks = append(toks, in[start:])
	}
	return toks
}

// resolve follows definitions until the term is compound or an undefined atom.
func (s *Script) resolve(t string) string {
	for i := 0; i < 64; i++ {
		b, ok := s.defs[t]
		if !ok {
			return t
		}
		t = b
	}
	return t
}

func bvLitVal(t string) (uint64, int, bool) {
	if !isBVLit(t) {
		return 0, 0, false
	}
	var v uint64
	var n int
	if _, err := fmt.Sscanf(t, "(_ bv%d %d)", &v, &n); err != nil {
		return 0, 0, false
	}
	return v, n, true
}

// litOf resolves a term to a bit-vector literal if it is one.
func (s *Script) lit(t string) (string, bool) {
	return s.litDepth(t, 0)
}

func (s *Script) litDepth(t string, depth int) (string, bool) {
	r := s.resolve(t)
	if isBVLit(r) {
		return r, true
	}
	if depth > 6 {
		return "", false
	}
	toks := splitApp(r)
	switch {
	case len(toks) == 4 && toks[0] == "ite":
		// both branches the same literal
		a, oka := s.litDepth(toks[2], depth+1)
		if !oka {
			return "", false
		}
		b, okb := s.litDepth(toks[3], depth+1)
		if okb && a == b {
			return a, true
		}
	case len(toks) == 3 && toks[0] == "select" && depth < 4:
		v := s.selDepth(toks[1], toks[2], 150)
		if v != r && v != sel(toks[1], toks[2]) {
			return s.litDepth(v, depth+1)
		}
	}
	return "", false
}

// sel is select with simplification.
func (s *Script) sel(a, i string) string {
	return s.selDepth(a, i, 0)
}

func (s *Script) selDepth(a, i string, depth int) string {
	if depth > 200 {
		return sel(a, i)
	}
	il, iLit := s.lit(i)
	if iLit {
		i = il
	}
	if iLit {
		if m, ok := s.elemFacts[a]; ok {
			if v, ok := m[i]; ok {
				return v
			}
		}
	}
	cur := a
	for steps := 0; steps < 400; steps++ {
		r := s.resolve(cur)
		if iLit {
			if m, ok := s.elemFacts[r]; ok {
				if v, ok := m[i]; ok {
					return v
				}
			}
		}
		toks := splitApp(r)
		if len(toks) == 0 {
			return sel(cur, i)
		}
		switch {
		case toks[0] == "store" && len(toks) == 4:
			j := toks[2]
			if jl, ok := s.lit(j); ok {
				j = jl
			}
			if j == i {
				return toks[3]
			}
			if iLit && isBVLit(j) {
				cur = toks[1]
				continue
			}
			if s.fresh[i] && s.fresh[j] {
				// two different allocation terms denote different objects
				cur = toks[1]
				continue
			}
			if s.olderThan(i, j) || s.olderThan(j, i) {
				// a reference read from memory before an object was allocated is not that object
				cur = toks[1]
				continue
			}
			return sel(cur, i)
		case toks[0] == "ite" && len(toks) == 4:
			x := s.selDepth(toks[2], i, depth+1)
			y := s.selDepth(toks[3], i, depth+1)
			return ite(toks[1], x, y)
		case strings.HasPrefix(toks[0], "(as const") && len(toks) == 2:
			return toks[1]
		case toks[0] == "select" && len(toks) == 3:
			// nested: select(select(H, r), i): simplify the inner select first
			inner := s.selDepth(toks[1], toks[2], depth+1)
			if inner != r {
				cur = inner
				continue
			}
			return sel(cur, i)
		}
		return sel(cur, i)
	}
	return sel(cur, i)
}

// olderThan: a is a reference value obtained (read from memory, or an input) before the
// object denoted by the allocation term b was allocated.
func (s *Script) olderThan(a, b string) bool {
	if !s.fresh[b] {
		return false
	}
	st, ok := s.refStamp[a]
	if !ok {
		return false
	}
	return s.allocSeq[b] > st
}

// stampRef records that the reference-valued term t was obtained now.
func (s *Script) stampRef(t string, at int) {
	if isBVLit(t) || s.fresh[t] {
		return
	}
	if old, ok := s.refStamp[t]; ok && old <= at {
		return
	}
	s.refStamp[t] = at
}

// selIte pushes a select through an ite-valued index of literals.
func (s *Script) selIdx(a, i string) string {
	r := s.resolve(i)
	toks := splitApp(r)
	if len(toks) == 4 && toks[0] == "ite" {
		return ite(toks[1], s.selIdx(a, toks[2]), s.selIdx(a, toks[3]))
	}
	return s.sel(a, i)
}

// eqS is equality with folding through literal-valued ites.
func (s *Script) eqS(a, b string) string {
	if a == b {
		return "true"
	}
	ra, rb := s.resolve(a), s.resolve(b)
	if isBVLit(ra) && isBVLit(rb) {
		if ra == rb {
			return "true"
		}
		return "false"
	}
	if isBVLit(rb) {
		toks := splitApp(ra)
		if len(toks) == 4 && toks[0] == "ite" {
			x, y := s.eqS(toks[2], rb), s.eqS(toks[3], rb)
			if (x == "true" || x == "false") && (y == "true" || y == "false") {
				return ite(toks[1], x, y)
			}
		}
	}
	if isBVLit(ra) && !isBVLit(rb) {
		return s.eqS(b, a)
	}
	return eq(a, b)
}

// addS folds additions of literals.
func (s *Script) addS(a, b string) string {
	la, oka := s.lit(a)
	lb, okb := s.lit(b)
	if oka && okb {
		va, n, _ := bvLitVal(la)
		vb, _, _ := bvLitVal(lb)
		return bvLit(va+vb, n)
	}
	if okb {
		if v, _, _ := bvLitVal(lb); v == 0 {
			return a
		}
	}
	if oka {
		if v, _, _ := bvLitVal(la); v == 0 {
			return b
		}
	}
	return app("bvadd", a, b)
}

// subS folds subtractions of literals.
func (s *Script) subS(a, b string) string {
	la, oka := s.lit(a)
	lb, okb := s.lit(b)
	if oka && okb {
		va, n, _ := bvLitVal(la)
		vb, _, _ := bvLitVal(lb)
		return bvLit(va-vb, n)
	}
	if okb {
		if v, _, _ := bvLitVal(lb); v == 0 {
			return a
		}
	}
	if a == b {
		_, n, ok := bvLitVal(la)
		if ok {
			return bvLit(0, n)
		}
	}
	// (x + c) - x == c
	ra := s.resolve(a)
	if toks := splitApp(ra); len(toks) == 3 && toks[0] == "bvadd" {
		if toks[1] == b || s.resolve(toks[1]) == s.resolve(b) {
			return toks[2]
		}
		if toks[2] == b || s.resolve(toks[2]) == s.resolve(b) {
			return toks[1]
		}
	}
	return app("bvsub", a, b)
}

// canon expands definitions recursively: two terms with the same canonical text
// denote the same value (used as keys for deterministic uninterpreted results).
func (s *Script) canon(t string) string {
	if s.canonMemo == nil {
		s.canonMemo = map[string]string{}
	}
	if r, ok := s.canonMemo[t]; ok {
		return r
	}
	r := s.resolve(t)
	toks := splitApp(r)
	if len(toks) > 0 {
		var b strings.Builder
		b.WriteByte('(')
		for i, tk := range toks {
			if i > 0 {
				b.WriteByte(' ')
			}
			if i == 0 && !strings.HasPrefix(tk, "(") {
				b.WriteString(tk)
			} else {
				b.WriteString(s.canon(tk))
			}
		}
		b.WriteByte(')')
		r = b.String()
	}
	s.canonMemo[t] = r
	return r
}
