package main

import (
	"fmt"
	"go/types"
	"sort"
	"strconv"
	"strings"
)

// probe is a named term whose value is requested from the solver's model.
type probe struct {
	Path string // e.g. mem.BaseReg
	Term string
	Sort string
	Kind string // int, uint, bool, str, ref, tag
	Bits int
}

// inputProbes enumerates the observable parts of the inputs of a function VC:
// parameters, fields behind pointer parameters (entry heap), slice lengths and the
// first elements.
func (vc *FuncVC) inputProbes() []probe {
	e := vc.Engine
	var ps []probe
	var walk func(path string, v Val, t types.Type, depth int)
	h0 := Heap{"#entry": "1"}
	walk = func(path string, v Val, t types.Type, depth int) {
		if depth > 5 {
			return
		}
		switch x := v.(type) {
		case Sc:
			switch u := under(t).(type) {
			case *types.Basic:
				switch {
				case x.S == SBool:
					ps = append(ps, probe{path, x.T, x.S, "bool", 0})
				case x.S == SStr:
					ps = append(ps, probe{path, x.T, x.S, "str", 0})
					ps = append(ps, probe{path + "#id", app("gs_id", x.T), SI32, "uint", 32})
					ps = append(ps, probe{path + "#len", app("gs_len", x.T), SI64, "int", 64})
					for k, pc := range e.parseCalls {
						parts := strings.Split(pc, "|")
						ps = append(ps, probe{fmt.Sprintf("%s#pok%d", path, k), app(parts[0]+".ok", x.T, parts[1], parts[2]), SBool, "bool", 0})
						ps = append(ps, probe{fmt.Sprintf("%s#pval%d", path, k), app(parts[0]+".val", x.T, parts[1], parts[2]), SI64, "int", 64})
						ps = append(ps, probe{fmt.Sprintf("%s#pbase%d", path, k), parts[1], SI64, "int", 64})
					}
				case bitsOf(t) > 0:
					k := "uint"
					if isSigned(t) {
						k = "int"
					}
					ps = append(ps, probe{path, x.T, x.S, k, bitsOf(t)})
				}
				_ = u
			case *types.Pointer:
				ps = append(ps, probe{path, x.T, SRef, "ref", 32})
				if st, ok := under(u.Elem()).(*types.Struct); ok {
					pv := PtrVal{Base: x.T, Root: u.Elem()}
					for i := 0; i < st.NumFields(); i++ {
						f := st.Field(i)
						func() {
							defer func() { recover() }()
							fv := e.load(h0, pv.field(i, f.Name()), f.Type())
							walk(path+"."+f.Name(), fv, f.Type(), depth+1)
						}()
					}
				}
			case *types.Map:
				ps = append(ps, probe{path, x.T, SRef, "mapref", 32})
			}
		case StructVal:
			st := under(t).(*types.Struct)
			for i, f := range x.F {
				walk(path+"."+st.Field(i).Name(), f, st.Field(i).Type(), depth+1)
			}
		case SliceVal:
			ps = append(ps, probe{path + "#len", x.Len, SI64, "int", 64})
			ps = append(ps, probe{path + "#arr", x.Arr, SRef, "ref", 32})
			et := under(t).(*types.Slice).Elem()
			for i := 0; i < 4; i++ {
				func() {
					defer func() { recover() }()
					ev := e.load(h0, e.elemPtr(x, et, bvLit(uint64(i), 64)), et)
					walk(fmt.Sprintf("%s[%d]", path, i), ev, et, depth+1)
				}()
			}
		case IfaceVal:
			ps = append(ps, probe{path + "#tag", x.Tag, STag, "uint", 16})
		}
	}
	for _, in := range vc.Inputs {
		walk(in.Name, in.Val, in.Type, 0)
	}
	return ps
}

// renderModel prints the reachable part of a model compactly.
func renderModel(m map[string]rawVal) []string {
	var keys []string
	for k := range m {
		keys = append(keys, k)
	}
	sort.Strings(keys)
	var out []string
	for _, k := range keys {
		if strings.Contains(k, "#id") || strings.HasSuffix(k, "#arr") {
			continue
		}
		skip := false
		for i := 0; i < len(k); i++ {
			if k[i] == '.' || k[i] == '[' {
				pre := k[:i]
				if v, ok := m[pre]; ok && v.OK && v.U == 0 && !v.IsLit {
					if _, isStr := m[pre+"#len"]; !isStr {
						skip = true // behind a nil pointer
					}
				}
				if a, ok := m[pre+"#arr"]; ok && a.OK && a.U == 0 {
					skip = true
				}
				if k[i] == '[' {
					var idx int64
					fmt.Sscanf(k[i:], "[%d]", &idx)
					if n, ok := m[pre+"#len"]; ok && idx >= int64(n.U) {
						skip = true
					}
				}
			}
		}
		if skip {
			continue
		}
		v := m[k]
		switch {
		case v.IsLit:
			out = append(out, fmt.Sprintf("%s = %q", k, v.Lit))
		case strings.HasSuffix(k, "#len"):
			if _, isStr := m[strings.TrimSuffix(k, "#len")]; isStr {
				if !m[strings.TrimSuffix(k, "#len")].IsLit {
					out = append(out, fmt.Sprintf("%s = %d", k, int64(v.U)))
				}
			} else {
				out = append(out, fmt.Sprintf("%s = %d", k, int64(v.U)))
			}
		case v.OK:
			out = append(out, fmt.Sprintf("%s = %d (0x%x)", k, int64(v.U), v.U))
		default:
			if _, isStr := m[k+"#len"]; isStr {
				out = append(out, fmt.Sprintf("%s = <non-literal string>", k))
			} else {
				out = append(out, fmt.Sprintf("%s = %v", k, v.Bool))
			}
		}
	}
	return out
}

func signExt(u uint64, bits int) int64 {
	if bits >= 64 || bits == 0 {
		return int64(u)
	}
	if u&(1<<uint(bits-1)) != 0 {
		return int64(u | ^((1 << uint(bits)) - 1))
	}
	return int64(u)
}

func splitSexprs(s string) []string {
	var res []string
	depth := 0
	start := -1
	for i, c := range s {
		switch c {
		case '(':
			if depth == 0 {
				start = i
			}
			depth++
		case ')':
			depth--
			if depth == 0 && start >= 0 {
				res = append(res, s[start:i+1])
				start = -1
			}
		}
	}
	return res
}

// valueOf extracts V from "((term V))".
func valueOf(ans string) string {
	ans = strings.TrimSpace(ans)
	if !strings.HasPrefix(ans, "((") {
		return ans
	}
	inner := ans[2 : len(ans)-2]
	// term may itself contain parens; value is the last balanced token
	inner = strings.TrimSpace(inner)
	if strings.HasSuffix(inner, ")") {
		d := 0
		for i := len(inner) - 1; i >= 0; i-- {
			switch inner[i] {
			case ')':
				d++
			case '(':
				d--
				if d == 0 {
					return inner[i:]
				}
			}
		}
	}
	if i := strings.LastIndex(inner, " "); i >= 0 {
		return inner[i+1:]
	}
	return inner
}

func parseBV(v string) (uint64, bool) {
	v = strings.TrimSpace(v)
	switch {
	case strings.HasPrefix(v, "#x"):
		u, err := strconv.ParseUint(v[2:], 16, 64)
		return u, err == nil
	case strings.HasPrefix(v, "#b"):
		u, err := strconv.ParseUint(v[2:], 2, 64)
		return u, err == nil
	case strings.HasPrefix(v, "(_ bv"):
		var u uint64
		var n int
		if _, err := fmt.Sscanf(v, "(_ bv%d %d)", &u, &n); err == nil {
			return u, true
		}
	}
	return 0, false
}
