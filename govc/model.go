package main

import (
	"context"
	"fmt"
	"go/types"
	"os"
	"path/filepath"
	"strconv"
	"strings"
)

// probe is a named term whose value is requested from the solver's model.
type probe struct {
	Path string // e.g. mem.BaseReg
	Term string
	Sort string
	Kind string // int, uint, bool, str, ref, tag
	Bits int
}

// inputProbes enumerates the observable parts of the inputs of a function VC:
// parameters, fields behind pointer parameters (entry heap), slice lengths and the
// first elements.
func (vc *FuncVC) inputProbes() []probe {
	e := vc.Engine
	var ps []probe
	var walk func(path string, v Val, t types.Type, depth int)
	h0 := Heap{}
	walk = func(path string, v Val, t types.Type, depth int) {
		if depth > 4 {
			return
		}
		switch x := v.(type) {
		case Sc:
			switch u := under(t).(type) {
			case *types.Basic:
				switch {
				case x.S == SBool:
					ps = append(ps, probe{path, x.T, x.S, "bool", 0})
				case x.S == SStr:
					ps = append(ps, probe{path, x.T, x.S, "str", 0})
					ps = append(ps, probe{path + "#id", app("gs_id", x.T), SI32, "uint", 32})
					ps = append(ps, probe{path + "#len", app("gs_len", x.T), SI64, "int", 64})
				case bitsOf(t) > 0:
					k := "uint"
					if isSigned(t) {
						k = "int"
					}
					ps = append(ps, probe{path, x.T, x.S, k, bitsOf(t)})
				}
				_ = u
			case *types.Pointer:
				ps = append(ps, probe{path, x.T, SRef, "ref", 32})
				if st, ok := under(u.Elem()).(*types.Struct); ok {
					pv := PtrVal{Base: x.T, Root: u.Elem()}
					for i := 0; i < st.NumFields(); i++ {
						f := st.Field(i)
						func() {
							defer func() { recover() }()
							fv := e.load(h0, pv.field(i, f.Name()), f.Type())
							walk(path+"."+f.Name(), fv, f.Type(), depth+1)
						}()
					}
				}
			case *types.Map:
				ps = append(ps, probe{path, x.T, SRef, "ref", 32})
			}
		case StructVal:
			st := under(t).(*types.Struct)
			for i, f := range x.F {
				walk(path+"."+st.Field(i).Name(), f, st.Field(i).Type(), depth+1)
			}
		case SliceVal:
			ps = append(ps, probe{path + "#len", x.Len, SI64, "int", 64})
			ps = append(ps, probe{path + "#arr", x.Arr, SRef, "ref", 32})
			et := under(t).(*types.Slice).Elem()
			for i := 0; i < 4; i++ {
				func() {
					defer func() { recover() }()
					ev := e.load(h0, e.elemPtr(x, et, bvLit(uint64(i), 64)), et)
					walk(fmt.Sprintf("%s[%d]", path, i), ev, et, depth+1)
				}()
			}
		case IfaceVal:
			ps = append(ps, probe{path + "#tag", x.Tag, STag, "uint", 16})
		}
	}
	for _, in := range vc.Inputs {
		walk(in.Name, in.Val, in.Type, 0)
	}
	return ps
}

// getModel re-runs a satisfiable query with model production and returns the
// values of the probes, rendered as Go-ish literals.
func getModel(dir string, vc *FuncVC, o *Obligation, solverName string, timeoutS int) (map[string]string, []string, string) {
	probes := vc.inputProbes()
	// probing may have appended definitions to the script after o.Upto; they are
	// pure definitions over existing symbols, so append them after the prefix.
	sc := vc.Engine.sc
	var b strings.Builder
	b.WriteString("(set-option :produce-models true)\n(set-logic ALL)\n")
	b.WriteString(sc.text(o.Upto))
	if o.Cover {
		b.WriteString("(assert " + o.Goal + ")\n")
	} else {
		b.WriteString("(assert (not " + o.Goal + "))\n")
	}
	// later definitions needed by the probes (only define-fun / declare lines)
	for _, l := range sc.lines[o.Upto:] {
		if strings.HasPrefix(l, "(define-fun ld!") || strings.HasPrefix(l, "(define-fun ix!") || strings.HasPrefix(l, "(declare-const H0_") {
			b.WriteString(l + "\n")
		}
	}
	b.WriteString("(check-sat)\n")
	for _, p := range probes {
		b.WriteString("(get-value (" + p.Term + "))\n")
	}
	file := filepath.Join(dir, sanitize(o.Name)+".model.smt2")
	_ = os.WriteFile(file, []byte(b.String()), 0o644)
	var sp solverSpec
	for _, s := range solvers {
		if s.name == solverName {
			sp = s
		}
	}
	if sp.name == "" {
		sp = solvers[0]
	}
	st, out, _ := runSolver(context.Background(), sp, file, timeoutS)
	vals := map[string]string{}
	var order []string
	if st != "sat" {
		return vals, order, out
	}
	lines := strings.Split(out, "\n")
	// each get-value answer is one s-expression, possibly on several lines; join and split by balanced parens
	rest := strings.Join(lines[1:], " ")
	answers := splitSexprs(rest)
	lits := map[uint64]string{}
	for lit, _ := range vc.Engine.lits {
		_ = lit
	}
	for i, lit := range vc.Engine.litOrder {
		if i == 0 {
			lits[1] = lit
		} else {
			lits[uint64(i+1)] = lit
		}
	}
	raw := map[string]string{}
	for i, p := range probes {
		if i >= len(answers) {
			break
		}
		raw[p.Path] = valueOf(answers[i])
	}
	for _, p := range probes {
		v, ok := raw[p.Path]
		if !ok || strings.Contains(p.Path, "#id") {
			continue
		}
		switch p.Kind {
		case "str":
			id, ok := parseBV(raw[p.Path+"#id"])
			if lit, isLit := lits[id]; ok && isLit {
				vals[p.Path] = strconv.Quote(lit)
			} else {
				n, _ := parseBV(raw[p.Path+"#len"])
				vals[p.Path] = fmt.Sprintf("<non-literal string #%d len=%d>", id, int64(n))
			}
		case "int":
			u, ok := parseBV(v)
			if !ok {
				vals[p.Path] = v
				break
			}
			if strings.HasSuffix(p.Path, "#len") && raw[strings.TrimSuffix(p.Path, "#len")] != "" {
				continue
			}
			vals[p.Path] = fmt.Sprintf("%d", signExt(u, p.Bits))
		case "uint", "ref":
			u, ok := parseBV(v)
			if !ok {
				vals[p.Path] = v
				break
			}
			if p.Kind == "ref" {
				if u == 0 {
					vals[p.Path] = "nil"
				} else {
					vals[p.Path] = fmt.Sprintf("&obj%d", u)
				}
			} else {
				vals[p.Path] = fmt.Sprintf("%d (0x%x)", u, u)
			}
		case "bool":
			vals[p.Path] = v
		}
		if _, ok := vals[p.Path]; ok {
			order = append(order, p.Path)
		}
	}
	return vals, order, out
}

func signExt(u uint64, bits int) int64 {
	if bits >= 64 || bits == 0 {
		return int64(u)
	}
	if u&(1<<uint(bits-1)) != 0 {
		return int64(u | ^((1 << uint(bits)) - 1))
	}
	return int64(u)
}

func splitSexprs(s string) []string {
	var res []string
	depth := 0
	start := -1
	for i, c := range s {
		switch c {
		case '(':
			if depth == 0 {
				start = i
			}
			depth++
		case ')':
			depth--
			if depth == 0 && start >= 0 {
				res = append(res, s[start:i+1])
				start = -1
			}
		}
	}
	return res
}

// valueOf extracts V from "((term V))".
func valueOf(ans string) string {
	ans = strings.TrimSpace(ans)
	if !strings.HasPrefix(ans, "((") {
		return ans
	}
	inner := ans[2 : len(ans)-2]
	// term may itself contain parens; value is the last balanced token
	inner = strings.TrimSpace(inner)
	if strings.HasSuffix(inner, ")") {
		d := 0
		for i := len(inner) - 1; i >= 0; i-- {
			switch inner[i] {
			case ')':
				d++
			case '(':
				d--
				if d == 0 {
					return inner[i:]
				}
			}
		}
	}
	if i := strings.LastIndex(inner, " "); i >= 0 {
		return inner[i+1:]
	}
	return inner
}

func parseBV(v string) (uint64, bool) {
	v = strings.TrimSpace(v)
	switch {
	case strings.HasPrefix(v, "#x"):
		u, err := strconv.ParseUint(v[2:], 16, 64)
		return u, err == nil
	case strings.HasPrefix(v, "#b"):
		u, err := strconv.ParseUint(v[2:], 2, 64)
		return u, err == nil
	case strings.HasPrefix(v, "(_ bv"):
		var u uint64
		var n int
		if _, err := fmt.Sscanf(v, "(_ bv%d %d)", &u, &n); err == nil {
			return u, true
		}
	}
	return 0, false
}
