package main

import (
	"encoding/json"
	"flag"
	"fmt"
	"os"
	"path/filepath"
	"sort"
	"strings"
	"sync"
	"time"
)

// oblProps decides which properties an obligation is evidence for.
func oblProps(c *Contract, o *Obligation) []string {
	switch o.Kind {
	case "panic", "decreases":
		return []string{"C13"}
	case "canary":
		if strings.Contains(o.Name, ".nopanic.") {
			return []string{"C13"}
		}
	}
	// clause labels may restrict: label "ea@C02+C01"
	if i := strings.Index(o.Name, "@C"); i >= 0 && o.Kind != "panic" {
		rest := o.Name[i+1:]
		if j := strings.IndexAny(rest, ".#"); j >= 0 {
			rest = rest[:j]
		}
		return strings.Split(rest, "+")
	}
	var ps []string
	for _, p := range c.Props {
		if p != "C13" {
			ps = append(ps, p)
		}
	}
	if o.Kind == "frame" {
		// "nothing else changes" obligations decide the properties that are about that (run and
		// statement independence, evaluation without side effects); a contract that serves other
		// properties too does not make them depend on its frame
		var fp []string
		for _, p := range ps {
			if p == "C10" || p == "C14" || p == "C11" {
				fp = append(fp, p)
			}
		}
		if strings.Contains(o.Name, ".globals.") {
			return fp
		}
		if len(fp) > 0 {
			return fp
		}
	}
	return ps
}

func has(xs []string, x string) bool {
	for _, y := range xs {
		if y == x {
			return true
		}
	}
	return false
}

type evObl struct {
	Name    string            `json:"name"`
	Kind    string            `json:"kind"`
	Clause  string            `json:"clause"`
	Status  string            `json:"status"`
	Solver  string            `json:"solver"`
	Ms      int64             `json:"ms"`
	VCBytes int               `json:"vc_bytes"`
	Pos     string            `json:"pos,omitempty"`
	Answers map[string]string `json:"answers,omitempty"`
	Retried bool              `json:"retried_alone,omitempty"`
}

func cmdCheck(args []string) {
	fs := flag.NewFlagSet("check", flag.ExitOnError)
	repo := fs.String("repo", "/repo", "repository working tree")
	kf := fs.String("kf", "/verif/known_findings.json", "known findings file")
	prop := fs.String("prop", "", "property id")
	tier := fs.String("tier", "quick", "quick|thorough")
	evdir := fs.String("evidence", "/verif/evidence", "evidence directory")
	repdir := fs.String("replays", "/verif/replays", "replay directory")
	fs.Parse(args)
	if *prop == "" {
		fmt.Fprintln(os.Stderr, "check: -prop required")
		os.Exit(2)
	}
	t0 := time.Now()
	thorough := *tier == "thorough"
	timeoutS := 90
	if thorough {
		timeoutS = 180
	}
	seed := 0
	fmt.Sscanf(os.Getenv("VERIF_SEED"), "%d", &seed)
	ff, err := loadFindings(*kf)
	if err != nil {
		fmt.Fprintln(os.Stderr, "MACHINERY-ERROR findings:", err)
		os.Exit(2)
	}
	w, err := loadWorldF(*repo, ff)
	if err != nil {
		// the tree does not load with the contracts: either it does not compile, or a
		// contract names something that no longer exists. Both are reported, not passed.
		fmt.Printf("load failed: %v\n", err)
		rp := writeReplay(*repdir, *prop, "load", map[string]interface{}{"obligation": "load", "reason": "repository does not load with contracts", "error": err.Error()})
		fmt.Printf("VIOLATION property=%s replay=%s no-failing-input-found\n", *prop, rp)
		writeEvidenceFail(*evdir, *prop, *tier, seed, time.Since(t0).Seconds(), err.Error())
		os.Exit(1)
	}
	tLoad := time.Since(t0).Seconds()
	dir, _ := os.MkdirTemp("", "govc")
	defer os.RemoveAll(dir)

	// contracts relevant for the property
	var ids []string
	for id, c := range w.Contracts {
		if has(c.Props, *prop) || (*prop == "C13" && len(c.Props) > 0) {
			ids = append(ids, id)
		}
	}
	sort.Strings(ids)
	vcs := make([]*FuncVC, len(ids))
	var wg sync.WaitGroup
	sem := make(chan struct{}, 8)
	for i, id := range ids {
		wg.Add(1)
		go func(i int, id string) {
			defer wg.Done()
			sem <- struct{}{}
			defer func() { <-sem }()
			vcs[i] = buildVC(w, w.Contracts[id])
		}(i, id)
	}
	wg.Wait()
	tBuild := time.Since(t0).Seconds() - tLoad

	violations := 0
	var lines []string
	var toolLimits []string
	for _, vc := range vcs {
		if vc.Err != nil {
			toolLimits = append(toolLimits, fmt.Sprintf("%s: %v", vc.Contract.Func, vc.Err))
			rp := writeReplay(*repdir, *prop, vc.Contract.Func+".translate", map[string]interface{}{
				"obligation": vc.Contract.Func + ".translate", "reason": "the function under contract could not be translated (tool limit); its obligations are undischarged", "error": vc.Err.Error()})
			lines = append(lines, fmt.Sprintf("VIOLATION property=%s replay=%s no-failing-input-found", *prop, rp))
			violations++
		}
	}
	filter := func(vc *FuncVC) func(o *Obligation) bool {
		return func(o *Obligation) bool { return has(oblProps(vc.Contract, o), *prop) }
	}
	var jobs []oblResult
	for _, vc := range vcs {
		if vc.Err != nil {
			continue
		}
		f := filter(vc)
		for _, o := range vc.Obls {
			if f(o) {
				jobs = append(jobs, oblResult{VC: vc, O: o})
			}
		}
	}
	res := solveJobs(jobs, dir, timeoutS, thorough)
	tSolve := time.Since(t0).Seconds() - tLoad - tBuild

	var evs []evObl
	nReplays := 0
	canaryOK := map[string]bool{}
	canaryUndecided := map[string]bool{}
	var canaryOrder []*Finding
	nObl, nDis := 0, 0
	nCover, nCoverOK, nCoverInc := 0, 0, 0
	var solverMs int64
	var known []string
	var samples []interface{}
	funcs := map[string]bool{}
	assumed := map[string]int{}
	abstracted := map[string]int{}
	usedContracts := map[string]int{}
	var warnings []string
	var trusted []string
	var ctrAssumed []string
	for _, vc := range vcs {
		if vc.Err != nil {
			continue
		}
		if vc.Trusted {
			trusted = append(trusted, vc.Contract.Func)
			continue
		}
		funcs[vc.Contract.Func] = true
		for _, tc := range vc.Engine.trustedClauses {
			trusted = append(trusted, "clause "+tc)
		}
		for k, n := range vc.Engine.assumedExt {
			assumed[k] += n
		}
		for k, n := range vc.Engine.abstracted {
			abstracted[k] += n
		}
		for k, n := range vc.Engine.usedContracts {
			usedContracts[k] += n
		}
		warnings = append(warnings, vc.Engine.warnings...)
		// what the contract of a function under verification itself assumes: labelled preconditions
		// (requires[Axx]: assumptions about inputs, never checked at a call site) and options
		for _, cl := range vc.Contract.byKind("requires") {
			if strings.HasPrefix(cl.Label, "A") {
				ctrAssumed = append(ctrAssumed, fmt.Sprintf("precondition %s of %s is an assumption about its inputs (%s)", cl.Label, vc.Contract.Func, cl.Expr))
			}
		}
		var opts []string
		for o, on := range vc.Contract.Options {
			if on {
				opts = append(opts, o)
			}
		}
		sort.Strings(opts)
		for _, o := range opts {
			switch o {
			case "unroll-appends":
				ctrAssumed = append(ctrAssumed, vc.Contract.Func+": append/copy facts are used for the first 16 elements only (option unroll-appends; fewer hypotheses, sound)")
			}
		}
	}
	// contracts taken on trust at call sites (option trusted): assumed, never verified
	for _, k := range keysOf(usedContracts) {
		id := k
		if i := strings.Index(id, " ("); i >= 0 {
			id = id[:i]
		}
		if c := w.Contracts[id]; c != nil && c.Options["trusted"] {
			for _, cl := range c.byKind("ensures") {
				trusted = append(trusted, fmt.Sprintf("%s.ensures.%s (trusted contract, assumed at its call sites): %s", c.Func, cl.Label, cl.Expr))
			}
		}
	}
	for _, r := range res {
		solverMs += r.R.Ms
		evs = append(evs, evObl{r.O.Name, r.O.Kind, r.O.Clause, r.R.Status, r.R.Solver, r.R.Ms, r.R.VCBytes, r.O.Pos, r.R.Answers, r.R.Retried})
		switch {
		case r.O.Kind == "canary":
			id := r.O.Finding.ID
			if _, seen := canaryOK[id]; !seen {
				canaryOrder = append(canaryOrder, r.O.Finding)
				canaryOK[id] = false
			}
			if r.OK {
				canaryOK[id] = true
			} else if r.R.Status != "unsat" {
				canaryUndecided[id] = true
			}
		case r.O.Cover:
			nCover++
			if r.OK {
				nCoverOK++
			} else if r.R.Status != "unsat" {
				// a vacuity guard that the solvers could not decide is inconclusive, not a failure:
				// only a definite "unsat" shows that the guarded clauses are vacuous
				nCoverInc++
			} else {
				rp := writeReplay(*repdir, *prop, r.O.Name, map[string]interface{}{"obligation": r.O.Name, "reason": "vacuity guard failed: " + r.O.Clause + " is no longer satisfiable, so clauses guarded by it hold only vacuously", "solver_status": r.R.Status, "solver_output": trunc(r.R.Output, 2000)})
				lines = append(lines, fmt.Sprintf("VIOLATION property=%s replay=%s no-failing-input-found", *prop, rp))
				violations++
			}
		default:
			nObl++
			if r.OK {
				nDis++
				if len(samples) < 3 {
					samples = append(samples, map[string]interface{}{"obligation": r.O.Name, "clause": r.O.Clause, "status": r.R.Status, "solver": r.R.Solver, "goal_smt": trunc(r.O.Goal, 400)})
				}
				continue
			}
			violations++
			info := map[string]interface{}{"obligation": r.O.Name, "kind": r.O.Kind, "clause": r.O.Clause, "pos": r.O.Pos, "solver_status": r.R.Status, "solver": r.R.Solver, "solver_answers": r.R.Answers, "solver_output": trunc(r.R.Output, 4000)}
			confirmed := false
			if r.R.Status == "sat" && nReplays >= 4 {
				info["replay"] = "not attempted: four counterexamples of this run were already replayed"
			}
			if r.R.Status == "sat" && nReplays < 4 {
				nReplays++
				mt := timeoutS
				if mt > 25 {
					mt = 25
				}
				m, mout := modelValues(dir, r.VC, r.O, r.R.Solver, mt)
				_ = mout
				vals := map[string]string{}
				for k, v := range m {
					if strings.Contains(k, "#id") {
						continue
					}
					if v.IsLit {
						vals[k] = fmt.Sprintf("%q", v.Lit)
					} else if v.OK {
						vals[k] = fmt.Sprintf("%d", int64(v.U))
					}
				}
				info["model"] = vals
				scratch, _ := os.MkdirTemp("", "govc-replay")
				ro := replay(w, r.VC, r.O, m, scratch)
				os.RemoveAll(scratch)
				info["replay"] = ro
				confirmed = ro.Confirmed
			}
			rp := writeReplay(*repdir, *prop, r.O.Name, info)
			if confirmed {
				lines = append(lines, fmt.Sprintf("VIOLATION property=%s replay=%s", *prop, rp))
			} else {
				lines = append(lines, fmt.Sprintf("VIOLATION property=%s replay=%s no-failing-input-found", *prop, rp))
			}
		}
	}
	for _, f := range canaryOrder {
		if canaryOK[f.ID] {
			known = append(known, fmt.Sprintf("KNOWN-FINDING: property=%s %s %s [%s]", *prop, f.ID, f.What, f.Input))
		} else if canaryUndecided[f.ID] {
			// the obligation is proved outside the region; whether it still fails inside was not decided in time
			known = append(known, fmt.Sprintf("KNOWN-FINDING: property=%s %s %s [%s] (region excluded from the proof; its canary query was not decided within the time limit)", *prop, f.ID, f.What, f.Input))
		} else {
			lines = append(lines, fmt.Sprintf("NOTE: known finding %s no longer reproduces (no obligation fails inside its region): entry is stale", f.ID))
		}
	}
	for _, k := range known {
		fmt.Println(k)
	}
	for _, l := range lines {
		fmt.Println(l)
	}
	if nObl == 0 && violations == 0 {
		fmt.Printf("MACHINERY-ERROR: no obligations generated for property %s\n", *prop)
		os.Exit(2)
	}
	var fl []string
	for f := range funcs {
		fl = append(fl, f)
	}
	sort.Strings(fl)
	wall := time.Since(t0).Seconds()
	ev := map[string]interface{}{
		"property_id": *prop,
		"tier":        *tier,
		"seed":        seed,
		"level":       "proof",
		"wall_s":      wall,
		"violations":  violations,
		"coverage": map[string]interface{}{
			"obligations":               nObl,
			"discharged":                nDis,
			"checker_cmd":               "/verif/check " + *prop + " " + *tier,
			"trusted_base":              trustedBase(assumed, abstracted),
			"functions_under_contract":  fl,
			"vacuity_covers":            map[string]int{"checked": nCover, "satisfiable": nCoverOK, "inconclusive": nCoverInc},
			"known_findings":            known,
			"solver_time_s":             float64(solverMs) / 1000,
			"phase_s":                   map[string]float64{"load": tLoad, "vcgen": tBuild, "solve": tSolve},
			"callee_contracts_used":     keysOf(usedContracts),
			"assumed_library_contracts": keysOf(assumed),
			"abstracted_calls":          keysOf(abstracted),
			"tool_limits":               toolLimits,
			"warnings":                  dedup(warnings),
			"trusted_contracts":         dedup(trusted),
			"contract_assumptions":      dedup(ctrAssumed),
			"per_obligation":            evs,
			"samples":                   samples,
			"back_ends":                 []string{"z3 5.1.0 (z3-new)", "cvc5 1.0.x", "z3 4.8.12", "cvc5 1.0.x --enum-inst"},
			"integers":                  "Go machine integers as SMT bit-vectors (wrap-around, truncating conversions, signed/unsigned comparison exact)",
		},
		"assumptions": append(append(assumptionsText(assumed, abstracted), dedup(trusted)...), dedup(ctrAssumed)...),
	}
	os.MkdirAll(*evdir, 0o755)
	b, _ := json.MarshalIndent(ev, "", " ")
	os.WriteFile(filepath.Join(*evdir, *prop+".json"), b, 0o644)
	if violations > 0 {
		fmt.Printf("FAILED property=%s obligations=%d discharged=%d violations=%d wall_s=%.1f\n", *prop, nObl, nDis, violations, wall)
		os.Exit(1)
	}
	fmt.Printf("OK property=%s obligations=%d discharged=%d covers=%d/%d known_findings=%d solver_s=%.1f wall_s=%.1f\n", *prop, nObl, nDis, nCoverOK, nCover, len(known), float64(solverMs)/1000, wall)
}

func solveJobs(jobs []oblResult, dir string, timeoutS int, thorough bool) []oblResult {
	sem := make(chan struct{}, 3)
	var wg sync.WaitGroup
	for i := range jobs {
		wg.Add(1)
		go func(j *oblResult) {
			defer wg.Done()
			sem <- struct{}{}
			defer func() { <-sem }()
			text := queryText(j.VC.Engine.sc, j.O, false)
			to := timeoutS
			if j.O.Cover && to > 10 {
				to = 10 // vacuity guards: an undecided guard is only inconclusive
			}
			j.R = solve(dir, j.O.Name, text, to, thorough)
			if j.O.Cover {
				j.OK = j.R.Status == "sat"
			} else {
				j.OK = j.R.Status == "unsat"
			}
		}(&jobs[i])
	}
	wg.Wait()
	// An obligation that no solver decided (timeout / unknown, typically on a loaded machine) is tried
	// once more on its own with three times the time before it is reported as undischarged. A "sat"
	// answer is never retried.
	undecided := 0
	for i := range jobs {
		if j := &jobs[i]; !j.O.Cover && !j.OK && j.R.Status != "sat" {
			undecided++
		}
	}
	for i := range jobs {
		j := &jobs[i]
		if j.O.Cover || j.OK || j.R.Status == "sat" {
			continue
		}
		if undecided > 3 {
			// many undecided obligations are not a load effect (a broken invariant leaves a dozen
			// clauses without proof): no second attempt, they are reported as they are
			continue
		}
		text := queryText(j.VC.Engine.sc, j.O, false)
		first := j.R
		j.R = solve(dir, j.O.Name, text, 3*timeoutS, thorough)
		j.R.Ms += first.Ms
		j.R.Retried = true
		j.OK = j.R.Status == "unsat"
	}
	return jobs
}

func keysOf(m map[string]int) []string {
	var r []string
	for k := range m {
		r = append(r, k)
	}
	sort.Strings(r)
	return r
}

func dedup(xs []string) []string {
	seen := map[string]bool{}
	var r []string
	for _, x := range xs {
		if !seen[x] {
			seen[x] = true
			r = append(r, x)
		}
	}
	return r
}

func trustedBase(assumed, abstracted map[string]int) []string {
	tb := []string{
		"govc: the VC generator of /verif/govc (SSA -> SMT-LIB translation, memory model, loop cutting)",
		"golang.org/x/tools/go/ssa v0.29.0 (SSA construction faithful to the Go spec)",
		"SMT solvers z3 5.1.0, cvc5 1.0 (default and --enum-inst), z3 4.8.12 (first definitive answer in quick; all must agree in thorough)",
		"spec functions in /repo/**/verif_contracts.go written from the Intel SDM / PE-COFF specification",
	}
	for _, k := range keysOf(assumed) {
		tb = append(tb, "assumed contract of library function "+k)
	}
	return tb
}

func assumptionsText(assumed, abstracted map[string]int) []string {
	var r []string
	for _, k := range keysOf(assumed) {
		r = append(r, "library function "+k+" behaves as its built-in model in govc/models.go says (assumed, not verified)")
	}
	for _, k := range keysOf(abstracted) {
		r = append(r, "call abstracted (result unconstrained, no effect on modelled state assumed): "+k)
	}
	r = append(r, "strings are an uninterpreted sort: facts about string library functions are only those of the built-in models plus concrete evaluation on the literals of the program")
	r = append(r, "slice capacity is not modelled: append always yields a fresh backing array")
	r = append(r, "stack depth and memory exhaustion are not modelled")
	return r
}

func writeReplay(dir, prop, name string, info map[string]interface{}) string {
	d := filepath.Join(dir, prop)
	os.MkdirAll(d, 0o755)
	p := filepath.Join(d, sanitize(name)+".json")
	info["property"] = prop
	b, _ := json.MarshalIndent(info, "", " ")
	os.WriteFile(p, b, 0o644)
	return p
}

func writeEvidenceFail(evdir, prop, tier string, seed int, wall float64, why string) {
	ev := map[string]interface{}{
		"property_id": prop, "tier": tier, "seed": seed, "level": "proof", "wall_s": wall, "violations": 1,
		"coverage": map[string]interface{}{"evaluations": 1, "distinct_nontrivial": 2, "explanation": "the repository did not load with its contracts: " + why, "obligations": 0, "discharged": 0},
	}
	os.MkdirAll(evdir, 0o755)
	b, _ := json.MarshalIndent(ev, "", " ")
	os.WriteFile(filepath.Join(evdir, prop+".json"), b, 0o644)
}
