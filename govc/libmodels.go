package main

import (
	"fmt"
	"go/types"
	"strings"

	"golang.org/x/tools/go/ssa"
)

// libModel: built-in (assumed) contracts of bytes.Buffer, text/template and os
// file operations. bytes.Buffer is modelled on its real field buf (write-only use:
// the read offset stays 0); every model used is listed in the evidence.
func (e *Engine) libModel(fr *frame, ins ssa.Instruction, name string, fn *ssa.Function, args []Val, resT types.Type, reach string, heap Heap) (Val, string, bool) {
	use := func() { e.assumedExt[name]++ }
	nilErr := e.zeroVal(types.Universe.Lookup("error").Type())
	byteT := types.Typ[types.Uint8]
	bytesT := types.NewSlice(byteT)
	bufField := func(recv Val) (PtrVal, types.Type) {
		pt := fn.Signature.Recv().Type().(*types.Pointer)
		st := under(pt.Elem()).(*types.Struct)
		pv := e.asPtr(recv, pt)
		for i := 0; i < st.NumFields(); i++ {
			if st.Field(i).Name() == "buf" {
				return pv.field(i, "buf"), st.Field(i).Type()
			}
		}
		fail("bytes.Buffer has no field buf")
		return PtrVal{}, nil
	}
	appendBytes := func(recv Val, t SliceVal, tStr string, isStr bool) {
		fp, ft := bufField(recv)
		cur := e.load(heap, fp, ft).(SliceVal)
		// reuse the append model through a synthetic call shape
		var nv SliceVal
		if isStr {
			nv = e.appendRaw(cur, SliceVal{Len: app("gs_len", tStr)}, byteT, heap, true, tStr)
		} else {
			nv = e.appendRaw(cur, t, byteT, heap, false, "")
		}
		e.store(heap, fp, ft, nv)
	}
	switch name {
	case "(*bytes.Buffer).Write":
		use()
		p := args[1].(SliceVal)
		appendBytes(args[0], p, "", false)
		return TupleVal{Sc{p.Len, SI64}, nilErr}, reach, true
	case "(*bytes.Buffer).WriteString":
		use()
		s := e.scalar(args[1]).T
		appendBytes(args[0], SliceVal{}, s, true)
		return TupleVal{Sc{app("gs_len", s), SI64}, nilErr}, reach, true
	case "(*bytes.Buffer).WriteByte":
		use()
		// one-element temporary
		ref := e.alloc()
		c := e.comp(bytesT, []pathElem{{field: -1}}, "", SI8)
		heap[c.key] = e.sc.define("H_"+c.key, c.sort, sto(e.heapGet(heap, c), ref, sto(e.zeroArr(SI8, bvLit(0, 8), -1), bvLit(0, 64), e.scalar(args[1]).T)))
		appendBytes(args[0], SliceVal{ref, bvLit(0, 64), bvLit(1, 64)}, "", false)
		return nilErr, reach, true
	case "(*bytes.Buffer).Len":
		use()
		fp, ft := bufField(args[0])
		return Sc{e.load(heap, fp, ft).(SliceVal).Len, SI64}, reach, true
	case "(*bytes.Buffer).Bytes":
		use()
		fp, ft := bufField(args[0])
		return e.load(heap, fp, ft), reach, true
	case "(*bytes.Buffer).String":
		use()
		fp, ft := bufField(args[0])
		sv := e.load(heap, fp, ft).(SliceVal)
		e.needStrOp("gs_frombytes", []string{arrSort(SI64, SI8), SI64, SI64}, SStr)
		c := e.comp(bytesT, []pathElem{{field: -1}}, "", SI8)
		r := e.sc.define("sfb", SStr, app("gs_frombytes", e.sc.selIdx(e.heapGet(heap, c), sv.Arr), sv.Off, sv.Len))
		e.sc.assume(eq(app("gs_len", r), sv.Len))
		return Sc{r, SStr}, reach, true
	case "text/template.New":
		use()
		return Sc{e.alloc(), SRef}, reach, true
	case "(*text/template.Template).Parse":
		use()
		// (template, error): the template object remembers its text
		e.needStrOp("tmpl.text", []string{SRef}, SStr)
		e.needStrOp("tmpl.parses", []string{SStr}, SBool)
		t := e.alloc()
		txt := e.scalar(args[1]).T
		ok := app("tmpl.parses", txt)
		e.sc.assume(eq(app("tmpl.text", t), txt))
		errv := e.iteVal(ok, nilErr, IfaceVal{Tag: e.tagOf(types.Universe.Lookup("error").Type()), Ref: e.alloc(), Str: "str_empty", BV: bvLit(0, 64)})
		return TupleVal{Sc{ite(ok, t, bvLit(0, 32)), SRef}, errv}, reach, true
	case "(*text/template.Template).Execute":
		use()
		// Execute(w io.Writer, data any) error: on success the writer (a *bytes.Buffer here)
		// receives tmpl.out(text, data), a function of the template text and of the data value
		// (for a map: of the map object and of the heap state of its contents)
		e.needStrOp("tmpl.text", []string{SRef}, SStr)
		e.needStrOp("tmpl.out", []string{SStr, SRef, SI64}, SStr)
		e.needStrOp("tmpl.execok", []string{SStr, SRef, SI64}, SBool)
		wv, okw := args[1].(IfaceVal)
		dv, okd := args[2].(IfaceVal)
		if !okw || !okd {
			return nil, reach, false
		}
		txt := app("tmpl.text", e.scalar(args[0]).T)
		epoch := bvLit(uint64(e.mapEpoch(heap, dv)), 64)
		out := e.sc.define("tout", SStr, app("tmpl.out", txt, dv.Ref, epoch))
		ok := app("tmpl.execok", txt, dv.Ref, epoch)
		// append the bytes of out to the buffer
		bt := e.w.Types["bytes"].Scope().Lookup("Buffer").Type()
		pt := types.NewPointer(bt)
		st := under(bt).(*types.Struct)
		pv := e.asPtr(Sc{wv.Ref, SRef}, pt)
		for i := 0; i < st.NumFields(); i++ {
			if st.Field(i).Name() == "buf" {
				fp := pv.field(i, "buf")
				cur := e.load(heap, fp, st.Field(i).Type()).(SliceVal)
				nv := e.appendRaw(cur, SliceVal{Len: app("gs_len", out)}, byteT, heap, true, out)
				// the write happens only on success; on failure the buffer content is unspecified
				e.store(heap, fp, st.Field(i).Type(), nv)
				// String() of a buffer holding exactly the bytes of out gives out back
				e.needStrOp("gs_frombytes", []string{arrSort(SI64, SI8), SI64, SI64}, SStr)
				e.needStrOp("gs_bytes", []string{SStr}, arrSort(SI64, SI8))
				c := e.comp(bytesT, []pathElem{{field: -1}}, "", SI8)
				if l, isLit := e.sc.lit(cur.Len); isLit {
					if v, _, _ := bvLitVal(l); v == 0 {
						arr := e.sc.selIdx(e.heapGet(heap, c), nv.Arr)
						e.sc.assume(eq(app("gs_frombytes", arr, nv.Off, nv.Len), out))
					}
				}
			}
		}
		errv := e.iteVal(ok, nilErr, IfaceVal{Tag: e.tagOf(types.Universe.Lookup("error").Type()), Ref: e.alloc(), Str: "str_empty", BV: bvLit(0, 64)})
		return errv, reach, true
	case "os.Create", "os.OpenFile", "os.Open":
		use()
		e.needStrOp("os.openok", []string{SStr}, SBool)
		ok := app("os.openok", e.scalar(args[0]).T)
		f := e.alloc()
		errv := e.iteVal(ok, nilErr, IfaceVal{Tag: e.tagOf(types.Universe.Lookup("error").Type()), Ref: e.alloc(), Str: "str_empty", BV: bvLit(0, 64)})
		e.ghostEvent("open", reach, e.scalar(args[0]).T)
		return TupleVal{Sc{ite(ok, f, bvLit(0, 32)), SRef}, errv}, reach, true
	case "(*os.File).Close":
		use()
		return nilErr, reach, true
	case "bytes.IndexByte":
		// IndexByte(b, c): -1, or the index of an occurrence of c in b (the first one; not needed here)
		use()
		b := args[0].(SliceVal)
		r := e.sc.declare("indexbyte", SI64)
		c := e.comp(bytesT, []pathElem{{field: -1}}, "", SI8)
		at := sel(e.sc.selIdx(e.heapGet(heap, c), b.Arr), app("bvadd", b.Off, r))
		e.sc.assume(or(eq(r, bvLit(^uint64(0), 64)), and(app("bvsle", bvLit(0, 64), r), app("bvslt", r, b.Len), eq(at, e.scalar(args[1]).T))))
		return Sc{r, SI64}, reach, true
	case "github.com/lunixbochs/struc.PackWithOptions", "github.com/lunixbochs/struc.Pack":
		// struc.Pack*(w io.Writer, data interface{}[, options]): on success exactly the packed size of the
		// struct (sum of its fixed-size fields) is written to w; the bytes themselves are not modelled
		// here (unconstrained), nor is which error is returned
		mi, ok := cc1(ins).(*ssa.MakeInterface)
		wv, okw := args[0].(IfaceVal)
		if !ok || !okw {
			return nil, reach, false
		}
		pt, ok := mi.X.Type().(*types.Pointer)
		if !ok {
			return nil, reach, false
		}
		size, ok := packedSize(pt.Elem())
		if !ok {
			return nil, reach, false
		}
		use()
		bt := e.w.Types["bytes"].Scope().Lookup("Buffer").Type()
		bpt := types.NewPointer(bt)
		st := under(bt).(*types.Struct)
		pv := e.asPtr(Sc{wv.Ref, SRef}, bpt)
		e.needStrOp("struc.packok", []string{SI64}, SBool)
		e.packCalls++
		okc := app("struc.packok", bvLit(uint64(e.packCalls), 64))
		for i := 0; i < st.NumFields(); i++ {
			if st.Field(i).Name() == "buf" {
				fp := pv.field(i, "buf")
				cur := e.load(heap, fp, st.Field(i).Type()).(SliceVal)
				src := e.alloc()
				c := e.comp(bytesT, []pathElem{{field: -1}}, "", SI8)
				heap[c.key] = e.sc.define("H_"+c.key, c.sort, sto(e.heapGet(heap, c), src, e.sc.declare("packed", arrSort(SI64, SI8))))
				nv := e.appendRaw(cur, SliceVal{src, bvLit(0, 64), bvLit(uint64(size), 64)}, byteT, heap, false, "")
				e.store(heap, fp, st.Field(i).Type(), nv)
			}
		}
		errv := e.iteVal(okc, nilErr, IfaceVal{Tag: e.tagOf(types.Universe.Lookup("error").Type()), Ref: e.alloc(), Str: "str_empty", BV: bvLit(0, 64)})
		return errv, reach, true
	case "(*os.File).Write":
		use()
		p := args[1].(SliceVal)
		e.ghostWrite(reach, p, heap)
		e.needStrOp("os.writeok", []string{SI64}, SBool)
		ok := app("os.writeok", bvLit(uint64(len(e.ghostWrites)), 64))
		errv := e.iteVal(ok, nilErr, IfaceVal{Tag: e.tagOf(types.Universe.Lookup("error").Type()), Ref: e.alloc(), Str: "str_empty", BV: bvLit(0, 64)})
		return TupleVal{Sc{p.Len, SI64}, errv}, reach, true
	}
	_ = strings.HasPrefix
	_ = fmt.Sprintf
	return nil, reach, false
}

// ghostWriteRec records one write to an output file: the condition under which it
// happens and the bytes written.
type ghostWriteRec struct {
	cond string
	data SliceVal
	arr  string // content array at the time of the write
	n    string // number of writes this record stands for ("" = one): the writes of a callee taken by contract
}

func (e *Engine) ghostWrite(reach string, p SliceVal, heap Heap) {
	c := e.comp(types.NewSlice(types.Typ[types.Uint8]), []pathElem{{field: -1}}, "", SI8)
	arr := e.sc.define("wr_arr", arrSort(SI64, SI8), e.sc.selIdx(e.heapGet(heap, c), p.Arr))
	e.ghostWrites = append(e.ghostWrites, ghostWriteRec{cond: reach, data: p, arr: arr})
}

func (e *Engine) ghostEvent(kind, reach, arg string) {
	if e.pure || len(e.sc.binders) > 0 {
		return // specification code has no effects, ghost or otherwise
	}
	e.ghostEvents = append(e.ghostEvents, [3]string{kind, reach, arg})
	if kind == "logerror" {
		// "an error-level line has been logged" is a state variable: set here, havocked monotonically
		// at loop heads, readable in invariants
		cur := e.loggedTerm
		if cur == "" {
			cur = "false"
		}
		e.loggedTerm = e.sc.define("logged", SBool, or(cur, reach))
	}
}

// mapEpoch numbers the heap states of a map's contents: two Execute calls see the
// same data iff the map components have the same terms.
func (e *Engine) mapEpoch(heap Heap, dv IfaceVal) int {
	var parts []string
	for _, k := range e.compOrder {
		if strings.HasPrefix(k, "map[") {
			parts = append(parts, k+"="+e.heapGet(heap, e.comps[k]))
		}
	}
	key := strings.Join(parts, ";")
	if id, ok := e.epochs[key]; ok {
		return id
	}
	id := len(e.epochs) + 1
	e.epochs[key] = id
	return id
}


func cc1(ins ssa.Instruction) ssa.Value {
	if ci, ok := ins.(ssa.CallInstruction); ok && len(ci.Common().Args) > 1 {
		return ci.Common().Args[1]
	}
	return nil
}

// packedSize: the number of bytes struc writes for a struct of fixed-size integer and byte-array fields.
func packedSize(t types.Type) (int, bool) {
	st, ok := under(t).(*types.Struct)
	if !ok {
		return 0, false
	}
	n := 0
	for i := 0; i < st.NumFields(); i++ {
		ft := st.Field(i).Type()
		if b := bitsOf(ft); b > 0 {
			n += b / 8
			continue
		}
		if at, ok := under(ft).(*types.Array); ok && bitsOf(at.Elem()) == 8 {
			n += int(at.Len())
			continue
		}
		return 0, false
	}
	return n, true
}
