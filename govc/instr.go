package main

import (
	"fmt"
	"go/token"
	"go/types"

	"golang.org/x/tools/go/ssa"
)

// panicSite registers the obligation that a run-time panic is unreachable.
func (e *Engine) panicSite(fr *frame, ins ssa.Instruction, reach, safe, what string) {
	if safe == "true" || e.pure {
		return
	}
	if e.rootC != nil && e.rootC.Options["no-panic-obligations"] {
		// the contract says that panic freedom of this function is not analysed (listed in the evidence)
		if !e.noPanicNoted {
			e.noPanicNoted = true
			e.trustedClauses = append(e.trustedClauses, e.rootC.Func+": run-time panic sites not analysed (option no-panic-obligations)")
		}
		return
	}
	pos := e.posOf(ins.Pos())
	if pos == "" {
		// use the position of the enclosing function
		pos = e.posOf(fr.fn.Pos())
	}
	e.oblige(&Obligation{
		Name:   fmt.Sprintf("%s.nopanic.%s@%s", e.rootName(), what, fr.fn.Name()),
		Kind:   "panic",
		Clause: fmt.Sprintf("%s cannot panic in %s", what, fr.fn.Name()),
		Goal:   implies(reach, safe),
		Pos:    pos,
		Func:   e.rootName(),
	})
}

func (e *Engine) rootName() string {
	if e.rootC != nil {
		return e.rootC.Func
	}
	if e.root != nil {
		return e.root.Name()
	}
	return "?"
}

func (e *Engine) execInstr(fr *frame, b *ssa.BasicBlock, ins ssa.Instruction, reach string, heap Heap, st *blockState) string {
	switch x := ins.(type) {
	case *ssa.DebugRef:
	case *ssa.Alloc:
		elem := x.Type().(*types.Pointer).Elem()
		ref := e.alloc()
		p := PtrVal{Base: ref, Root: elem}
		e.store(heap, p, elem, e.zeroVal(elem))
		fr.vals[x] = p
	case *ssa.BinOp:
		fr.vals[x] = e.binop(fr, x, reach)
	case *ssa.UnOp:
		fr.vals[x] = e.unop(fr, x, reach, heap)
	case *ssa.Call:
		v, r := e.call(fr, x, &x.Call, reach, heap)
		fr.vals[x] = v
		reach = r
	case *ssa.ChangeType:
		fr.vals[x] = e.operand(fr, x.X)
	case *ssa.ChangeInterface:
		fr.vals[x] = e.operand(fr, x.X)
	case *ssa.Convert:
		fr.vals[x] = e.convert(fr, x, heap)
	case *ssa.MultiConvert:
		fail("MultiConvert")
	case *ssa.Extract:
		t := e.operand(fr, x.Tuple)
		tv, ok := t.(TupleVal)
		if !ok {
			fail("extract from %T", t)
		}
		fr.vals[x] = tv[x.Index]
	case *ssa.Field:
		sv, ok := e.operand(fr, x.X).(StructVal)
		if !ok {
			fail("Field on %T", e.operand(fr, x.X))
		}
		fr.vals[x] = sv.F[x.Field]
	case *ssa.FieldAddr:
		pv := e.asPtr(e.operand(fr, x.X), x.X.Type())
		e.panicSite(fr, x, reach, not(eq(pv.Base, bvLit(0, 32))), "nil-deref")
		st := under(x.X.Type().(*types.Pointer).Elem()).(*types.Struct)
		fr.vals[x] = pv.field(x.Field, st.Field(x.Field).Name())
	case *ssa.Index:
		fr.vals[x] = e.indexOp(fr, x, reach)
	case *ssa.IndexAddr:
		fr.vals[x] = e.indexAddr(fr, x, reach)
	case *ssa.Lookup:
		fr.vals[x] = e.lookup(fr, x, reach, heap)
	case *ssa.MakeInterface:
		fr.vals[x] = e.makeIface(e.operand(fr, x.X), x.X.Type())
	case *ssa.MakeClosure:
		fv := FuncVal{Fn: x.Fn.(*ssa.Function)}
		for _, bnd := range x.Bindings {
			fv.Bind = append(fv.Bind, e.operand(fr, bnd))
		}
		fr.vals[x] = fv
	case *ssa.MakeMap:
		ref := e.alloc()
		mt := under(x.Type()).(*types.Map)
		e.mapInit(heap, ref, mt)
		fr.vals[x] = Sc{ref, SRef}
	case *ssa.MakeSlice:
		st := under(x.Type()).(*types.Slice)
		l := e.toInt64(e.scalar(e.operand(fr, x.Len)), x.Len.Type())
		e.panicSite(fr, x, reach, and(app("bvsge", l, bvLit(0, 64)), app("bvsle", l, bvLit(1<<40, 64))), "makeslice-len")
		ref := e.alloc()
		nE := -1
		if k, ok := e.smallConst(l); ok {
			nE = k
		}
		e.initBacking(heap, ref, st.Elem(), nE)
		fr.vals[x] = SliceVal{ref, bvLit(0, 64), l}
	case *ssa.MapUpdate:
		e.mapUpdate(fr, x, reach, heap)
	case *ssa.Slice:
		fr.vals[x] = e.sliceOp(fr, x, reach, heap)
	case *ssa.Store:
		pv := e.asPtr(e.operand(fr, x.Addr), x.Addr.Type())
		e.panicSite(fr, x, reach, not(eq(pv.Base, bvLit(0, 32))), "nil-deref")
		e.store(heap, pv, x.Val.Type(), e.operand(fr, x.Val))
	case *ssa.TypeAssert:
		fr.vals[x] = e.typeAssert(fr, x, reach)
	case *ssa.If:
		c := e.scalar(e.operand(fr, x.Cond)).T
		st.edge = []string{
			e.sc.define(fmt.Sprintf("e_%s_b%d_t", fr.fn.Name(), b.Index), SBool, and(reach, c)),
			e.sc.define(fmt.Sprintf("e_%s_b%d_f", fr.fn.Name(), b.Index), SBool, and(reach, not(c))),
		}
	case *ssa.Jump:
		st.edge = []string{reach}
	case *ssa.Return:
		e.runDefers(fr, reach, heap)
		var rv Val
		switch len(x.Results) {
		case 0:
			rv = nil
		case 1:
			rv = e.operand(fr, x.Results[0])
		default:
			var tv TupleVal
			for _, r := range x.Results {
				tv = append(tv, e.operand(fr, r))
			}
			rv = tv
		}
		fr.rets = append(fr.rets, retSite{cond: reach, val: rv, heap: heap.clone()})
		st.edge = nil
	case *ssa.Panic:
		if !e.pure {
			e.oblige(&Obligation{
				Name:   fmt.Sprintf("%s.nopanic.explicit-panic@%s", e.rootName(), fr.fn.Name()),
				Kind:   "panic",
				Clause: "explicit panic unreachable in " + fr.fn.Name(),
				Goal:   not(reach),
				Pos:    e.posOf(x.Pos()),
				Func:   e.rootName(),
			})
		}
		st.edge = nil
	case *ssa.RunDefers:
		e.runDefers(fr, reach, heap)
	case *ssa.Defer:
		d := deferred{cond: reach, call: &x.Call}
		for _, a := range x.Call.Args {
			d.vals = append(d.vals, e.operand(fr, a))
		}
		if !x.Call.IsInvoke() {
			if _, isB := x.Call.Value.(*ssa.Builtin); !isB {
				d.fn = e.operand(fr, x.Call.Value)
			}
		}
		fr.defers = append(fr.defers, d)
	case *ssa.Range, *ssa.Next:
		fail("range over map/string (%s)", e.posOf(ins.Pos()))
	case *ssa.Go, *ssa.Select, *ssa.Send, *ssa.MakeChan:
		fail("concurrency construct %T", ins)
	case *ssa.SliceToArrayPointer:
		fail("SliceToArrayPointer")
	default:
		fail("instruction %T", ins)
	}
	return reach
}

func (e *Engine) runDefers(fr *frame, reach string, heap Heap) {
	// deferred calls are modelled only for effect-free or abstracted callees
	for i := len(fr.defers) - 1; i >= 0; i-- {
		d := fr.defers[i]
		name := "?"
		if f := d.call.StaticCallee(); f != nil {
			name = f.String()
		} else if d.call.IsInvoke() {
			name = d.call.Method.FullName()
		}
		e.abstracted["deferred "+name]++
	}
}

func (e *Engine) toInt64(s Sc, t types.Type) string {
	n := bitsOf(t)
	if n == 64 || n == 0 {
		return s.T
	}
	if isSigned(t) {
		return app(fmt.Sprintf("(_ sign_extend %d)", 64-n), s.T)
	}
	return app(fmt.Sprintf("(_ zero_extend %d)", 64-n), s.T)
}

func (e *Engine) binop(fr *frame, x *ssa.BinOp, reach string) Val {
	a, b := e.operand(fr, x.X), e.operand(fr, x.Y)
	t := x.X.Type()
	switch x.Op {
	case token.EQL:
		return Sc{e.sc.define("eq", SBool, e.eqVal(a, b, t)), SBool}
	case token.NEQ:
		return Sc{e.sc.define("ne", SBool, not(e.eqVal(a, b, t))), SBool}
	}
	if isStringT(t) {
		sa, sb := e.scalar(a).T, e.scalar(b).T
		switch x.Op {
		case token.ADD:
			e.needStrOp("gs_concat", []string{SStr, SStr}, SStr)
			r := e.sc.define("cat", SStr, app("gs_concat", sa, sb))
			e.sc.assume(eq(app("gs_len", r), app("bvadd", app("gs_len", sa), app("gs_len", sb))))
			e.litFactBinary("gs_concat", sa, sb, r)
			return Sc{r, SStr}
		case token.LSS, token.LEQ, token.GTR, token.GEQ:
			e.needStrOp("gs_lt", []string{SStr, SStr}, SBool)
			switch x.Op {
			case token.LSS:
				return Sc{app("gs_lt", sa, sb), SBool}
			case token.GTR:
				return Sc{app("gs_lt", sb, sa), SBool}
			case token.LEQ:
				return Sc{not(app("gs_lt", sb, sa)), SBool}
			default:
				return Sc{not(app("gs_lt", sa, sb)), SBool}
			}
		}
		fail("string binop %s", x.Op)
	}
	sa, sb := e.scalar(a), e.scalar(b)
	if sa.S == SBool {
		switch x.Op {
		case token.AND, token.LAND:
			return Sc{and(sa.T, sb.T), SBool}
		case token.OR, token.LOR:
			return Sc{or(sa.T, sb.T), SBool}
		case token.XOR:
			return Sc{app("xor", sa.T, sb.T), SBool}
		}
		fail("bool binop %s", x.Op)
	}
	if sa.S == "F64" {
		e.needStrOp("f64.op_"+sanitize(x.Op.String()), []string{"F64", "F64"}, "F64")
		if x.Op == token.LSS || x.Op == token.GTR || x.Op == token.LEQ || x.Op == token.GEQ {
			return Sc{e.sc.declare("fcmp", SBool), SBool}
		}
		return Sc{app("f64.op_"+sanitize(x.Op.String()), sa.T, sb.T), "F64"}
	}
	signed := isSigned(t)
	n := bitsOf(t)
	sortT := sa.S
	mk := func(op string) Val { return Sc{e.sc.define("b", sortT, app(op, sa.T, sb.T)), sortT} }
	cmp := func(sop, uop string) Val {
		if signed {
			return Sc{e.sc.define("c", SBool, app(sop, sa.T, sb.T)), SBool}
		}
		return Sc{e.sc.define("c", SBool, app(uop, sa.T, sb.T)), SBool}
	}
	switch x.Op {
	case token.ADD:
		return mk("bvadd")
	case token.SUB:
		return mk("bvsub")
	case token.MUL:
		_, la := e.sc.lit(sa.T)
		_, lb := e.sc.lit(sb.T)
		if !la && !lb && n == 64 {
			// symbolic 64-bit product: an uninterpreted function with sound lemmas (the
			// bit-level multiplier is very expensive for the solvers and the proofs here
			// only need congruence)
			e.sc.declareFun("mul64", []string{SI64, SI64}, SI64)
			r := e.sc.define("mul", SI64, app("mul64", sa.T, sb.T))
			key := "mul|" + sa.T + "|" + sb.T
			if !e.litFacts[key] {
				e.litFacts[key] = true
				e.sc.assume(eq(r, app("mul64", sb.T, sa.T)))
				e.sc.assume(implies(eq(sb.T, bvLit(1, 64)), eq(r, sa.T)))
				e.sc.assume(implies(eq(sa.T, bvLit(1, 64)), eq(r, sb.T)))
				e.sc.assume(implies(or(eq(sa.T, bvLit(0, 64)), eq(sb.T, bvLit(0, 64))), eq(r, bvLit(0, 64))))
			}
			return Sc{r, SI64}
		}
		return mk("bvmul")
	case token.QUO, token.REM:
		e.panicSite(fr, x, reach, not(eq(sb.T, bvLit(0, n))), "div-by-zero")
		if _, isLit := e.sc.lit(sb.T); !isLit && n > 32 {
			// symbolic divisor: division circuits are expensive for the solvers, so the
			// operator is an uninterpreted function constrained by sound arithmetic lemmas
			return Sc{e.divRemUF(x.Op == token.QUO, signed, n, sa.T, sb.T), sortT}
		}
		if x.Op == token.QUO {
			if signed {
				return mk("bvsdiv")
			}
			return mk("bvudiv")
		}
		if signed {
			return mk("bvsrem")
		}
		return mk("bvurem")
	case token.AND:
		return mk("bvand")
	case token.OR:
		return mk("bvor")
	case token.XOR:
		return mk("bvxor")
	case token.AND_NOT:
		return Sc{e.sc.define("b", sortT, app("bvand", sa.T, app("bvnot", sb.T))), sortT}
	case token.SHL, token.SHR:
		// shift count has its own type; bring it to the width of x (counts >= width give 0 / sign fill)
		yt := x.Y.Type()
		yn := bitsOf(yt)
		cnt := sb.T
		if isSigned(yt) {
			e.panicSite(fr, x, reach, app("bvsge", cnt, bvLit(0, yn)), "negative-shift")
		}
		var big string
		if yn > n {
			big = app("bvuge", cnt, bvLit(uint64(n), yn))
			cnt = app(fmt.Sprintf("(_ extract %d 0)", n-1), cnt)
		} else if yn < n {
			cnt = app(fmt.Sprintf("(_ zero_extend %d)", n-yn), cnt)
			big = "false"
		} else {
			big = "false"
		}
		// SMT bvshl/bvlshr/bvashr already give 0 / sign-fill for counts >= width within the same width
		var op string
		if x.Op == token.SHL {
			op = "bvshl"
		} else if signed {
			op = "bvashr"
		} else {
			op = "bvlshr"
		}
		r := app(op, sa.T, cnt)
		if big != "false" {
			var sat string
			if op == "bvashr" {
				sat = app("bvashr", sa.T, bvLit(uint64(n-1), n))
			} else {
				sat = bvLit(0, n)
			}
			r = ite(big, sat, r)
		}
		return Sc{e.sc.define("sh", sortT, r), sortT}
	case token.LSS:
		return cmp("bvslt", "bvult")
	case token.LEQ:
		return cmp("bvsle", "bvule")
	case token.GTR:
		return cmp("bvsgt", "bvugt")
	case token.GEQ:
		return cmp("bvsge", "bvuge")
	}
	fail("binop %s", x.Op)
	return nil
}

func (e *Engine) unop(fr *frame, x *ssa.UnOp, reach string, heap Heap) Val {
	switch x.Op {
	case token.MUL: // load
		v := e.operand(fr, x.X)
		pv := e.asPtr(v, x.X.Type())
		e.panicSite(fr, x, reach, not(eq(pv.Base, bvLit(0, 32))), "nil-deref")
		return e.load(heap, pv, x.Type())
	case token.NOT:
		return Sc{not(e.scalar(e.operand(fr, x.X)).T), SBool}
	case token.SUB:
		s := e.scalar(e.operand(fr, x.X))
		if s.S == "F64" {
			return Sc{e.sc.declare("fneg", "F64"), "F64"}
		}
		return Sc{e.sc.define("neg", s.S, app("bvneg", s.T)), s.S}
	case token.XOR:
		s := e.scalar(e.operand(fr, x.X))
		return Sc{e.sc.define("cpl", s.S, app("bvnot", s.T)), s.S}
	}
	fail("unop %s", x.Op)
	return nil
}

func (e *Engine) convert(fr *frame, x *ssa.Convert, heap Heap) Val {
	from, to := x.X.Type(), x.Type()
	v := e.operand(fr, x.X)
	uf, ut := under(from), under(to)
	bf, okf := uf.(*types.Basic)
	bt, okt := ut.(*types.Basic)
	if okf && okt {
		nf, _, intf := intBits(bf)
		nt, _, intt := intBits(bt)
		switch {
		case intf && intt:
			s := e.scalar(v)
			var r string
			switch {
			case nt == nf:
				r = s.T
			case nt < nf:
				r = app(fmt.Sprintf("(_ extract %d 0)", nt-1), s.T)
			case isSigned(from):
				r = app(fmt.Sprintf("(_ sign_extend %d)", nt-nf), s.T)
			default:
				r = app(fmt.Sprintf("(_ zero_extend %d)", nt-nf), s.T)
			}
			return Sc{e.sc.define("cv", bvSort(nt), r), bvSort(nt)}
		case bf.Info()&types.IsString != 0 && bt.Info()&types.IsString != 0:
			return v
		case intf && bt.Info()&types.IsString != 0:
			// string(rune)
			e.needStrOp("gs_fromrune", []string{SI64}, SStr)
			return Sc{app("gs_fromrune", e.toInt64(e.scalar(v), from)), SStr}
		case bf.Info()&types.IsFloat != 0 || bt.Info()&types.IsFloat != 0:
			s, _ := scalarSort(to)
			return Sc{e.sc.declare("fconv", s), s}
		case bf.Kind() == types.UnsafePointer || bt.Kind() == types.UnsafePointer:
			fail("unsafe.Pointer conversion")
		}
	}
	// string <-> []byte
	if okf && bf.Info()&types.IsString != 0 {
		if sl, ok := ut.(*types.Slice); ok {
			if b, ok := under(sl.Elem()).(*types.Basic); ok && b.Kind() == types.Uint8 {
				s := e.scalar(v).T
				ref := e.alloc()
				e.needStrOp("gs_bytes", []string{SStr}, arrSort(SI64, SI8))
				c := e.comp(types.NewSlice(sl.Elem()), []pathElem{{field: -1}}, "", SI8)
				cur := e.heapGet(heap, c)
				heap[c.key] = e.sc.define("H_"+c.key, c.sort, sto(cur, ref, app("gs_bytes", s)))
				e.strBytesFacts(s)
				return SliceVal{ref, bvLit(0, 64), app("gs_len", s)}
			}
			fail("string to %s", to)
		}
	}
	if okt && bt.Info()&types.IsString != 0 {
		if sl, ok := uf.(*types.Slice); ok {
			if b, ok := under(sl.Elem()).(*types.Basic); ok && b.Kind() == types.Uint8 {
				sv := v.(SliceVal)
				// string(bytes): an opaque function of the byte array contents and bounds
				e.needStrOp("gs_frombytes", []string{arrSort(SI64, SI8), SI64, SI64}, SStr)
				c := e.comp(types.NewSlice(sl.Elem()), []pathElem{{field: -1}}, "", SI8)
				r := e.sc.define("sfb", SStr, app("gs_frombytes", sel(e.heapGet(heap, c), sv.Arr), sv.Off, sv.Len))
				e.sc.assume(eq(app("gs_len", r), sv.Len))
				return Sc{r, SStr}
			}
		}
	}
	// pointer conversions between named pointer types etc.
	if _, ok := uf.(*types.Pointer); ok {
		return v
	}
	fail("conversion %s -> %s", from, to)
	return nil
}

func (e *Engine) strBytesFacts(s string) {
	// for literal strings give the bytes concretely
	for lit, c := range e.lits {
		if c == s {
			key := "bytes|" + c
			if e.litFacts[key] {
				return
			}
			e.litFacts[key] = true
			for i := 0; i < len(lit); i++ {
				e.sc.assume(eq(sel(app("gs_bytes", c), bvLit(uint64(i), 64)), bvLit(uint64(lit[i]), 8)))
			}
		}
	}
}

func (e *Engine) makeIface(v Val, t types.Type) Val {
	if isIface(t) {
		return v
	}
	iv := IfaceVal{Tag: e.tagOf(t), Ref: bvLit(0, 32), Str: "str_empty", BV: bvLit(0, 64)}
	switch x := v.(type) {
	case Sc:
		switch {
		case x.S == SStr:
			iv.Str = x.T
		case x.S == SBool:
			iv.BV = ite(x.T, bvLit(1, 64), bvLit(0, 64))
		case x.S == SRef && bitsOf(t) == 0:
			iv.Ref = x.T
		case bitsOf(t) > 0:
			iv.BV = e.toInt64(x, t)
		default:
			// arrays, floats: payload not modelled
			iv.BV = e.sc.declare("ifpayload", SI64)
		}
	case PtrVal:
		if len(x.Path) > 0 {
			// a pointer into an object (&s.f) boxed in an interface: the payload is opaque here; the
			// library models that receive it take what they need from the static type
			iv.Ref = e.sc.declare("boxed_interior", SRef)
			e.sc.assume(not(eq(iv.Ref, bvLit(0, 32))))
		} else {
			iv.Ref = e.ptrScalar(x).T
		}
	case FuncVal:
		iv.Ref = e.scalar(x).T
	case StructVal, SliceVal:
		// struct or slice boxed in an interface: payload is an opaque reference
		iv.Ref = e.sc.declare("boxed", SRef)
	default:
		fail("MakeInterface of %T", v)
	}
	return iv
}

func (e *Engine) typeAssert(fr *frame, x *ssa.TypeAssert, reach string) Val {
	iv, ok := e.operand(fr, x.X).(IfaceVal)
	if !ok {
		fail("TypeAssert on %T", e.operand(fr, x.X))
	}
	at := x.AssertedType
	var okc string
	var val Val
	if isIface(at) {
		// assertion to an interface type: succeeds iff non-nil and the dynamic type
		// implements it; the set of implementing tags seen so far is open, so the
		// success condition is an uninterpreted predicate of the tag.
		e.needStrOp("implements_"+sanitize(typeKey(at)), []string{STag}, SBool)
		okc = and(not(eq(iv.Tag, bvLit(0, 16))), app("implements_"+sanitize(typeKey(at)), iv.Tag))
		val = iv
	} else {
		okc = eq(iv.Tag, e.tagOf(at))
		val = e.unboxIface(iv, at)
	}
	okc = e.sc.define("ta_ok", SBool, okc)
	if _, isPtr := under(at).(*types.Pointer); isPtr {
		// modelling assumption: an interface never holds a typed nil pointer
		if sv, ok := val.(Sc); ok {
			e.sc.assume(implies(okc, not(eq(sv.T, bvLit(0, 32)))))
			e.warnOnce("interface values are assumed never to hold typed nil pointers")
		}
	}
	if x.CommaOk {
		// value is the zero value when the assertion fails
		z := e.zeroVal(at)
		if isIface(at) {
			z = e.zeroVal(at)
		}
		return TupleVal{e.iteVal(okc, val, z), Sc{okc, SBool}}
	}
	e.panicSite(fr, x, reach, okc, "type-assertion")
	return val
}

func (e *Engine) unboxIface(iv IfaceVal, t types.Type) Val {
	if s, ok := scalarSort(t); ok {
		switch {
		case s == SStr:
			return Sc{iv.Str, SStr}
		case s == SBool:
			return Sc{eq(iv.BV, bvLit(1, 64)), SBool}
		case s == SRef && bitsOf(t) == 0:
			return Sc{iv.Ref, SRef}
		case bitsOf(t) == 64:
			return Sc{iv.BV, s}
		case bitsOf(t) > 0:
			return Sc{app(fmt.Sprintf("(_ extract %d 0)", bitsOf(t)-1), iv.BV), s}
		}
	}
	return e.freshVal(t, "unboxed")
}

func (e *Engine) indexAddr(fr *frame, x *ssa.IndexAddr, reach string) Val {
	base := e.operand(fr, x.X)
	i := e.toInt64(e.scalar(e.operand(fr, x.Index)), x.Index.Type())
	switch xt := under(x.X.Type()).(type) {
	case *types.Slice:
		sv := base.(SliceVal)
		e.panicSite(fr, x, reach, and(app("bvsge", i, bvLit(0, 64)), app("bvslt", i, sv.Len)), "index-out-of-range")
		return e.elemPtr(sv, xt.Elem(), i)
	case *types.Pointer: // pointer to array
		at := under(xt.Elem()).(*types.Array)
		pv := e.asPtr(base, x.X.Type())
		e.panicSite(fr, x, reach, and(not(eq(pv.Base, bvLit(0, 32))), app("bvsge", i, bvLit(0, 64)), app("bvslt", i, bvLit(uint64(at.Len()), 64))), "index-out-of-range")
		return pv.index(i)
	}
	fail("IndexAddr on %s", x.X.Type())
	return nil
}

func (e *Engine) indexOp(fr *frame, x *ssa.Index, reach string) Val {
	base := e.operand(fr, x.X)
	i := e.toInt64(e.scalar(e.operand(fr, x.Index)), x.Index.Type())
	switch xt := under(x.X.Type()).(type) {
	case *types.Basic: // string
		s := e.scalar(base).T
		e.panicSite(fr, x, reach, and(app("bvsge", i, bvLit(0, 64)), app("bvslt", i, app("gs_len", s))), "index-out-of-range")
		e.needStrOp("gs_bytes", []string{SStr}, arrSort(SI64, SI8))
		e.strBytesFacts(s)
		return Sc{e.sc.define("sb", SI8, sel(app("gs_bytes", s), i)), SI8}
	case *types.Array:
		s := e.scalar(base)
		e.panicSite(fr, x, reach, and(app("bvsge", i, bvLit(0, 64)), app("bvslt", i, bvLit(uint64(xt.Len()), 64))), "index-out-of-range")
		es, _ := scalarSort(xt.Elem())
		return Sc{e.sc.define("ai", es, sel(s.T, i)), es}
	}
	fail("Index on %s", x.X.Type())
	return nil
}

func (e *Engine) sliceOp(fr *frame, x *ssa.Slice, reach string, heap Heap) Val {
	base := e.operand(fr, x.X)
	var lo, hi string
	lo = bvLit(0, 64)
	if x.Low != nil {
		lo = e.toInt64(e.scalar(e.operand(fr, x.Low)), x.Low.Type())
	}
	switch xt := under(x.X.Type()).(type) {
	case *types.Slice:
		sv := base.(SliceVal)
		hi = sv.Len
		if x.High != nil {
			hi = e.toInt64(e.scalar(e.operand(fr, x.High)), x.High.Type())
		}
		// capacity is not modelled: slicing beyond len (within cap) is reported as a possible panic
		e.panicSite(fr, x, reach, and(app("bvsle", bvLit(0, 64), lo), app("bvsle", lo, hi), app("bvsle", hi, sv.Len)), "slice-bounds")
		return SliceVal{sv.Arr, e.sc.define("so", SI64, e.sc.addS(sv.Off, lo)), e.sc.define("sl", SI64, e.sc.subS(hi, lo))}
	case *types.Basic: // string
		s := e.scalar(base).T
		hi = app("gs_len", s)
		if x.High != nil {
			hi = e.toInt64(e.scalar(e.operand(fr, x.High)), x.High.Type())
		}
		e.panicSite(fr, x, reach, and(app("bvsle", bvLit(0, 64), lo), app("bvsle", lo, hi), app("bvsle", hi, app("gs_len", s))), "slice-bounds")
		e.needStrOp("gs_sub", []string{SStr, SI64, SI64}, SStr)
		r := e.sc.define("sub", SStr, app("gs_sub", s, lo, hi))
		e.sc.assume(eq(app("gs_len", r), app("bvsub", hi, lo)))
		e.litFactSub(s, lo, hi, r)
		return Sc{r, SStr}
	case *types.Pointer: // pointer to array
		at := under(xt.Elem()).(*types.Array)
		pv := e.asPtr(base, x.X.Type())
		hi = bvLit(uint64(at.Len()), 64)
		if x.High != nil {
			hi = e.toInt64(e.scalar(e.operand(fr, x.High)), x.High.Type())
		}
		e.panicSite(fr, x, reach, and(app("bvsle", bvLit(0, 64), lo), app("bvsle", lo, hi), app("bvsle", hi, bvLit(uint64(at.Len()), 64))), "slice-bounds")
		if len(pv.Path) == 0 {
			// an array object of its own (a variable): its elements share the component of slice
			// elements, so the slice simply aliases it
			return SliceVal{pv.Base, lo, e.sc.define("sl", SI64, e.sc.subS(hi, lo))}
		}
		// an array inside a struct or another array: model by copying into a fresh backing array
		// (sound only if the array is not written through afterwards; writes through the slice
		// are then not visible in the array). Flag it.
		e.warn("slice of array %s modelled by copy at %s", xt.Elem(), e.posOf(x.Pos()))
		ref := e.alloc()
		switch arrv := e.load(heap, pv, at).(type) {
		case Sc:
			es, _ := scalarSort(at.Elem())
			c := e.comp(types.NewSlice(at.Elem()), []pathElem{{field: -1}}, "", es)
			heap[c.key] = e.sc.define("H_"+c.key, c.sort, sto(e.heapGet(heap, c), ref, arrv.T))
		case ArrayVal:
			j := 0
			e.forLeaves(types.NewSlice(at.Elem()), []pathElem{{field: -1}}, at.Elem(), func(path []pathElem, suffix, leaf string, lt types.Type) {
				c := e.comp(types.NewSlice(at.Elem()), path, suffix, leaf)
				heap[c.key] = e.sc.define("H_"+c.key, c.sort, sto(e.heapGet(heap, c), ref, arrv.Leaves[j]))
				j++
			})
		}
		return SliceVal{ref, lo, e.sc.define("sl", SI64, e.sc.subS(hi, lo))}
	}
	fail("Slice on %s", x.X.Type())
	return nil
}

// initBacking zero-initialises the backing array of a fresh slice.
func (e *Engine) initBacking(heap Heap, ref string, elem types.Type, nElems int) {
	e.forLeaves(types.NewSlice(elem), []pathElem{{field: -1}}, elem, func(path []pathElem, suffix, leaf string, lt types.Type) {
		c := e.comp(types.NewSlice(elem), path, suffix, leaf)
		// innermost array sort for one index level
		inner := leaf
		for i := 1; i < c.nidx; i++ {
			inner = arrSort(SI64, inner)
		}
		z := zeroOfLeaf(leaf, suffix, lt)
		var ca string
		if c.nidx == 1 {
			ca = e.zeroArr(leaf, z, nElems)
		} else {
			ca = "((as const " + arrSort(SI64, inner) + ") " + nestConst(inner, leaf, z, c.nidx-1) + ")"
		}
		heap[c.key] = e.sc.define("H_"+c.key, c.sort, sto(e.heapGet(heap, c), ref, ca))
	})
}

func nestConst(inner, leaf, z string, levels int) string {
	if levels <= 0 {
		return z
	}
	sub := leaf
	for i := 1; i < levels; i++ {
		sub = arrSort(SI64, sub)
	}
	return "((as const " + inner + ") " + nestConst(sub, leaf, z, levels-1) + ")"
}

func zeroOfLeaf(leaf, suffix string, lt types.Type) string {
	switch leaf {
	case SBool:
		return "false"
	case SStr:
		return "str_empty"
	case "F64":
		return "f64_zero"
	}
	var n int
	if _, err := fmt.Sscanf(leaf, "(_ BitVec %d)", &n); err == nil {
		return bvLit(0, n)
	}
	if lt != nil {
		return zeroTerm(leaf, lt)
	}
	fail("zero of leaf sort %s", leaf)
	return ""
}

// forLeaves enumerates the scalar leaves of a value of type t located at path.
func (e *Engine) forLeaves(root types.Type, path []pathElem, t types.Type, f func(path []pathElem, suffix, leaf string, lt types.Type)) {
	if s, ok := scalarSort(t); ok {
		f(path, "", s, t)
		return
	}
	switch u := under(t).(type) {
	case *types.Struct:
		for i := 0; i < u.NumFields(); i++ {
			np := append(append([]pathElem{}, path...), pathElem{field: i, name: u.Field(i).Name()})
			e.forLeaves(root, np, u.Field(i).Type(), f)
		}
	case *types.Slice:
		f(path, ".arr", SRef, nil)
		f(path, ".off", SI64, nil)
		f(path, ".len", SI64, nil)
	case *types.Interface:
		f(path, ".tag", STag, nil)
		f(path, ".ref", SRef, nil)
		f(path, ".str", SStr, nil)
		f(path, ".bv", SI64, nil)
	default:
		fail("leaves of %s", t)
	}
}

// ---- maps ----

func mapKeySort(mt *types.Map) string {
	s, ok := scalarSort(mt.Key())
	if !ok {
		fail("map key type %s", mt.Key())
	}
	return s
}

type mapComps struct {
	present *component
	vals    []*component // one per leaf of the value type
	leaves  []leafDesc
}

type leafDesc struct {
	path   []pathElem
	suffix string
	leaf   string
	lt     types.Type
}

func (e *Engine) mapComponents(mt *types.Map) mapComps {
	ks := mapKeySort(mt)
	root := types.Type(mt)
	mk := func(suffix, leaf string) *component {
		key := typeKey(root) + suffix
		if c, ok := e.comps[key]; ok {
			return c
		}
		sort := arrSort(SRef, arrSort(ks, leaf))
		c := &component{key: key, sort: sort, leaf: leaf, nidx: 1}
		c.init = "H0_" + sanitize(key)
		if _, dup := e.sc.declared[c.init]; dup {
			c.init = e.sc.freshName("H0_" + key)
		}
		e.sc.declared[c.init] = sort
		e.sc.add(fmt.Sprintf("(declare-const %s %s)", c.init, sort))
		e.comps[key] = c
		e.compOrder = append(e.compOrder, key)
		e.lateHavoc(c)
		return c
	}
	mc := mapComps{present: mk("#present", SBool)}
	e.forLeaves(root, nil, mt.Elem(), func(path []pathElem, suffix, leaf string, lt types.Type) {
		mc.leaves = append(mc.leaves, leafDesc{path, suffix, leaf, lt})
		mc.vals = append(mc.vals, mk("#val"+pathKey(types.Typ[types.Invalid], path, suffix)[len("invalid type"):], leaf))
	})
	return mc
}

func (e *Engine) mapInit(heap Heap, ref string, mt *types.Map) {
	mc := e.mapComponents(mt)
	ks := mapKeySort(mt)
	heap[mc.present.key] = e.sc.define("H_mp", mc.present.sort, sto(e.heapGet(heap, mc.present), ref, "((as const "+arrSort(ks, SBool)+") false)"))
}

// valFromLeaves rebuilds a value of type t from leaf terms produced in forLeaves order.
func (e *Engine) valFromLeaves(t types.Type, next func() string) Val {
	if s, ok := scalarSort(t); ok {
		return Sc{next(), s}
	}
	switch u := under(t).(type) {
	case *types.Struct:
		sv := StructVal{}
		for i := 0; i < u.NumFields(); i++ {
			sv.F = append(sv.F, e.valFromLeaves(u.Field(i).Type(), next))
		}
		return sv
	case *types.Slice:
		return SliceVal{next(), next(), next()}
	case *types.Interface:
		return IfaceVal{next(), next(), next(), next()}
	}
	fail("valFromLeaves %s", t)
	return nil
}

func (e *Engine) leavesOf(v Val, t types.Type) []string {
	if _, ok := scalarSort(t); ok {
		return []string{e.scalar(v).T}
	}
	switch u := under(t).(type) {
	case *types.Struct:
		var r []string
		sv := v.(StructVal)
		for i := 0; i < u.NumFields(); i++ {
			r = append(r, e.leavesOf(sv.F[i], u.Field(i).Type())...)
		}
		return r
	case *types.Slice:
		sv := v.(SliceVal)
		return []string{sv.Arr, sv.Off, sv.Len}
	case *types.Interface:
		iv := v.(IfaceVal)
		return []string{iv.Tag, iv.Ref, iv.Str, iv.BV}
	}
	fail("leavesOf %s", t)
	return nil
}

func (e *Engine) lookup(fr *frame, x *ssa.Lookup, reach string, heap Heap) Val {
	if mt, ok := under(x.X.Type()).(*types.Map); ok {
		m := e.scalar(e.operand(fr, x.X)).T
		k := e.scalar(e.operand(fr, x.Index)).T
		mc := e.mapComponents(mt)
		// a nil map reads as empty
		present := e.sc.define("mp", SBool, and(not(eq(m, bvLit(0, 32))), sel(sel(e.heapGet(heap, mc.present), m), k)))
		i := 0
		val := e.valFromLeaves(mt.Elem(), func() string {
			c := mc.vals[i]
			i++
			return e.sc.define("mv", c.leaf, sel(sel(e.heapGet(heap, c), m), k))
		})
		if len(e.sc.binders) == 0 {
			e.assumeSliceInvariants(val, mt.Elem())
		}
		val = e.iteVal(present, val, e.zeroVal(mt.Elem()))
		if x.CommaOk {
			return TupleVal{val, Sc{present, SBool}}
		}
		return val
	}
	// string index
	s := e.scalar(e.operand(fr, x.X)).T
	i := e.toInt64(e.scalar(e.operand(fr, x.Index)), x.Index.Type())
	e.panicSite(fr, x, reach, and(app("bvsge", i, bvLit(0, 64)), app("bvslt", i, app("gs_len", s))), "index-out-of-range")
	e.needStrOp("gs_bytes", []string{SStr}, arrSort(SI64, SI8))
	e.strBytesFacts(s)
	return Sc{e.sc.define("sb", SI8, sel(app("gs_bytes", s), i)), SI8}
}

func (e *Engine) mapUpdate(fr *frame, x *ssa.MapUpdate, reach string, heap Heap) {
	mt := under(x.Map.Type()).(*types.Map)
	m := e.scalar(e.operand(fr, x.Map)).T
	k := e.scalar(e.operand(fr, x.Key)).T
	e.panicSite(fr, x, reach, not(eq(m, bvLit(0, 32))), "nil-map-write")
	mc := e.mapComponents(mt)
	cur := e.heapGet(heap, mc.present)
	heap[mc.present.key] = e.sc.define("H_mp", mc.present.sort, sto(cur, m, sto(sel(cur, m), k, ite(e.guard, "true", sel(sel(cur, m), k)))))
	e.dirty[mc.present.key] = true
	ls := e.leavesOf(e.operand(fr, x.Value), mt.Elem())
	for i, c := range mc.vals {
		cur := e.heapGet(heap, c)
		heap[c.key] = e.sc.define("H_mv", c.sort, sto(cur, m, sto(sel(cur, m), k, ite(e.guard, ls[i], sel(sel(cur, m), k)))))
		e.dirty[c.key] = true
	}
}

// divRemUF abstracts x/y and x%y (symbolic y) by uninterpreted functions plus
// lemmas that hold for the machine operators: sign/range facts, the power-of-two
// mask identity, and the division identity x == (x/y)*y + x%y for small quotients.
func (e *Engine) divRemUF(quo, signed bool, n int, x, y string) string {
	tag := "u"
	if signed {
		tag = "s"
	}
	qf := fmt.Sprintf("div%s%d", tag, n)
	rf := fmt.Sprintf("rem%s%d", tag, n)
	e.sc.declareFun(qf, []string{bvSort(n), bvSort(n)}, bvSort(n))
	e.sc.declareFun(rf, []string{bvSort(n), bvSort(n)}, bvSort(n))
	q := e.sc.define("quo", bvSort(n), app(qf, x, y))
	r := e.sc.define("rem", bvSort(n), app(rf, x, y))
	key := "divrem|" + qf + "|" + x + "|" + y
	if !e.litFacts[key] {
		e.litFacts[key] = true
		zero := bvLit(0, n)
		one := bvLit(1, n)
		ge := "bvuge"
		gt := "bvugt"
		lt := "bvult"
		if signed {
			ge, gt, lt = "bvsge", "bvsgt", "bvslt"
		}
		pos := and(app(ge, x, zero), app(gt, y, zero))
		// 0 <= x%y < y and 0 <= x/y <= x for non-negative x and positive y
		e.sc.assume(implies(pos, and(app(ge, r, zero), app(lt, r, y), app(ge, q, zero), app(ge, x, q))))
		// y a power of two: x%y == x & (y-1)
		pow2 := eq(app("bvand", y, app("bvsub", y, one)), zero)
		e.sc.assume(implies(and(pos, pow2), eq(r, app("bvand", x, app("bvsub", y, one)))))
		// x < y: quotient 0, remainder x ; x == y: quotient 1
		e.sc.assume(implies(and(pos, app(lt, x, y)), and(eq(q, zero), eq(r, x))))
		e.sc.assume(implies(and(pos, eq(x, y)), and(eq(q, one), eq(r, zero))))
		// y == 1
		e.sc.assume(implies(eq(y, one), and(eq(q, x), eq(r, zero))))
		// division identity (holds for every y != 0 in two's complement arithmetic)
		e.sc.assume(implies(not(eq(y, zero)), eq(x, app("bvadd", app("bvmul", q, y), r))))
	}
	if quo {
		return q
	}
	return r
}


// assumeSliceInvariants: every slice value inside v (a value read from a map) satisfies the
// invariants of Go slices (0 <= len, bounded by memory; nil has length 0).
func (e *Engine) assumeSliceInvariants(v Val, t types.Type) {
	switch x := v.(type) {
	case SliceVal:
		if !isBVLit(x.Len) {
			e.sc.assume(and(app("bvsge", x.Len, bvLit(0, 64)), app("bvslt", x.Len, bvLit(1<<40, 64)), app("bvsge", x.Off, bvLit(0, 64)), app("bvslt", x.Off, bvLit(1<<40, 64)),
				implies(eq(x.Arr, bvLit(0, 32)), eq(x.Len, bvLit(0, 64)))))
		}
	case StructVal:
		if st, ok := under(t).(*types.Struct); ok {
			for i, f := range x.F {
				e.assumeSliceInvariants(f, st.Field(i).Type())
			}
		}
	}
}
