package main

import (
	"sync/atomic"
	"regexp"
	"bytes"
	"context"
	"fmt"
	"os"
	"os/exec"
	"path/filepath"
	"strings"
	"sync"
	"time"
)

// SolveResult is the outcome of one obligation.
type SolveResult struct {
	Status  string // unsat | sat | unknown | timeout | error
	Solver  string
	Ms      int64
	Output  string
	VCBytes int
	File    string
	Answers map[string]string // per solver (thorough)
	Retried bool              // undecided at first, decided (or not) by the solitary second attempt
}

type solverSpec struct {
	name string
	argv func(file string, timeoutS int) []string
}

var solvers = []solverSpec{
	{"z3-5.1.0", func(f string, t int) []string { return []string{"z3-new", "-smt2", fmt.Sprintf("-T:%d", t), f} }},
	{"cvc5-1.0", func(f string, t int) []string {
		return []string{"cvc5", "--lang=smt2", fmt.Sprintf("--tlimit=%d", t*1000), f}
	}},
	{"z3-4.8.12", func(f string, t int) []string { return []string{"z3", "-smt2", fmt.Sprintf("-T:%d", t), f} }},
	// enumerative instantiation decides many goals with bounded quantifiers that the default strategy gives up on
	{"cvc5-1.0-enum", func(f string, t int) []string {
		return []string{"cvc5", "--lang=smt2", "--enum-inst", fmt.Sprintf("--tlimit=%d", t*1000), f}
	}},
	// the run time of z3 on the larger quantified goals is heavy-tailed (4 s .. >100 s for the same goal
	// under different seeds): a small portfolio of configurations makes the race robust
	{"z3-5.1.0/noauto", func(f string, t int) []string {
		return []string{"z3-new", "-smt2", fmt.Sprintf("-T:%d", t), "auto_config=false", f}
	}},
	{"z3-5.1.0/arith2", func(f string, t int) []string {
		return []string{"z3-new", "-smt2", fmt.Sprintf("-T:%d", t), "smt.arith.solver=2", f}
	}},
	{"z3-5.1.0/seed7", func(f string, t int) []string {
		return []string{"z3-new", "-smt2", fmt.Sprintf("-T:%d", t), "smt.random_seed=7", "sat.random_seed=7", f}
	}},
}

func ctxBackground() context.Context { return context.Background() }

func firstLine(s string) string {
	for _, l := range strings.Split(s, "\n") {
		l = strings.TrimSpace(l)
		if l != "" {
			return l
		}
	}
	return ""
}

func runSolver(ctx context.Context, sp solverSpec, file string, timeoutS int) (status, out string, ms int64) {
	argv := sp.argv(file, timeoutS)
	t0 := time.Now()
	cctx, cancel := context.WithTimeout(ctx, time.Duration(timeoutS+2)*time.Second)
	defer cancel()
	cmd := exec.CommandContext(cctx, argv[0], argv[1:]...)
	var buf bytes.Buffer
	cmd.Stdout = &buf
	cmd.Stderr = &buf
	_ = cmd.Run()
	ms = time.Since(t0).Milliseconds()
	out = buf.String()
	fl := firstLine(out)
	switch fl {
	case "sat", "unsat", "unknown":
		return fl, out, ms
	}
	if strings.Contains(fl, "timeout") || cctx.Err() != nil {
		return "timeout", out, ms
	}
	return "error", out, ms
}

// solve races the solvers on one query. In thorough mode all solvers are run
// and must not disagree.
func solve(dir, name, text string, timeoutS int, thorough bool) SolveResult {
	file := filepath.Join(dir, sanitize(name)+".smt2")
	if len(file) > 200 {
		file = filepath.Join(dir, fmt.Sprintf("%s_%x.smt2", sanitize(name)[:100], hashStr(name)))
	}
	_ = os.WriteFile(file, []byte(text), 0o644)
	res := SolveResult{VCBytes: len(text), File: file, Answers: map[string]string{}}
	ctx, cancel := context.WithCancel(context.Background())
	defer cancel()
	type ans struct {
		sp             solverSpec
		status, output string
		ms             int64
	}
	ch := make(chan ans, len(solvers))
	extraGo := make(chan struct{})
	var baseLeft, baseDefinite int32 = 4, 0
	var once sync.Once
	releaseExtras := func() { once.Do(func() { close(extraGo) }) }
	if !thorough {
		go func() {
			select {
			case <-ctx.Done():
			case <-time.After(3 * time.Second):
			}
			releaseExtras()
		}()
	}
	var wg sync.WaitGroup
	for i, sp := range solvers {
		wg.Add(1)
		go func(i int, sp solverSpec) {
			defer wg.Done()
			if i >= 4 {
				// the extra portfolio members join only when the first four are still working after 3 s
				// (quick) or when none of them has given a definitive answer (thorough)
				select {
				case <-ctx.Done():
					ch <- ans{sp, "cancelled", "", 0}
					return
				case <-extraGo:
				}
			}
			st, out, ms := runSolver(ctx, sp, file, timeoutS)
			if i < 4 && thorough {
				if st == "sat" || st == "unsat" {
					// thorough: two of the base configurations must have given a definitive answer (a
					// disagreement between any two is an error); the others are then not waited for
					if atomic.AddInt32(&baseDefinite, 1) >= 2 {
						cancel()
					}
				}
				if atomic.AddInt32(&baseLeft, -1) == 0 {
					if atomic.LoadInt32(&baseDefinite) > 0 {
						cancel()
					}
					releaseExtras()
				}
			}
			ch <- ans{sp, st, out, ms}
		}(i, sp)
	}
	go func() { wg.Wait(); close(ch) }()
	t0 := time.Now()
	var last ans
	for a := range ch {
		if a.status == "cancelled" {
			continue
		}
		res.Answers[a.sp.name] = a.status
		if a.status == "sat" || a.status == "unsat" {
			if res.Status == "" {
				res.Status, res.Solver, res.Ms, res.Output = a.status, a.sp.name, a.ms, a.output
				if !thorough {
					cancel()
				}
			} else if res.Status != a.status {
				res.Status = "error"
				res.Output = fmt.Sprintf("SOLVER DISAGREEMENT: %v", res.Answers)
			}
		}
		last = a
	}
	if res.Status == "" {
		res.Status, res.Solver, res.Output = last.status, last.sp.name, last.output
		res.Ms = time.Since(t0).Milliseconds()
		// prefer "unknown" over "timeout"/"error" if some solver said so
		for _, v := range res.Answers {
			if v == "unknown" {
				res.Status = "unknown"
			}
		}
	}
	return res
}

func hashStr(s string) uint32 {
	var h uint32 = 2166136261
	for i := 0; i < len(s); i++ {
		h ^= uint32(s[i])
		h *= 16777619
	}
	return h
}

// queryText builds the SMT-LIB text for an obligation.
func queryText(sc *Script, o *Obligation, models bool) string {
	var b strings.Builder
	if models {
		b.WriteString("(set-option :produce-models true)\n")
	}
	b.WriteString("(set-logic ALL)\n")
	b.WriteString(pruneQuantified(sc.textUsing(o.Upto, o.Using, o.InLoop), o.Goal))
	if o.Cover {
		b.WriteString("(assert " + o.Goal + ")\n")
	} else {
		b.WriteString("(assert (not " + o.Goal + "))\n")
	}
	b.WriteString("(check-sat)\n")
	return b.String()
}


var identRe = regexp.MustCompile(`[A-Za-z_][A-Za-z0-9_.!#$\[\]\-]*`)

// pruneQuantified drops asserted quantified facts that cannot matter for the goal: a top-level
// (assert (forall ...)) is kept only if one of the symbols it is specifically about (declared
// constants and functions other than the initial heap, the inputs and the string theory) occurs in
// the cone of definitions of the goal or of a kept assertion. Dropping hypotheses is sound.
func pruneQuantified(text, goal string) string {
	lines := strings.Split(text, "\n")
	defs := map[string][]string{} // defined name -> identifiers of its body
	declared := map[string]bool{}
	type qa struct {
		idx  int
		syms []string
	}
	var quants []qa
	var plain []int
	for i, l := range lines {
		switch {
		case strings.HasPrefix(l, "(define-fun "):
			rest := l[len("(define-fun "):]
			sp := strings.IndexByte(rest, ' ')
			if sp < 0 {
				continue
			}
			defs[rest[:sp]] = identRe.FindAllString(rest[sp:], -1)
		case strings.HasPrefix(l, "(declare-const "), strings.HasPrefix(l, "(declare-fun "):
			f := strings.Fields(l)
			if len(f) > 1 {
				declared[f[1]] = true
			}
		case strings.HasPrefix(l, "(assert (forall "):
			quants = append(quants, qa{i, identRe.FindAllString(l, -1)})
		case strings.HasPrefix(l, "(assert "):
			plain = append(plain, i)
		}
	}
	if len(quants) < 8 {
		return text
	}
	generic := func(s string) bool {
		return strings.HasPrefix(s, "H0_") || strings.HasPrefix(s, "gs_") || strings.HasPrefix(s, "str_") || strings.HasPrefix(s, "in_") || strings.HasPrefix(s, "glob_") || strings.HasPrefix(s, "lit_") || s == "f64_zero"
	}
	cone := map[string]bool{}
	var add func(ids []string)
	add = func(ids []string) {
		for _, id := range ids {
			if cone[id] {
				continue
			}
			if body, ok := defs[id]; ok {
				cone[id] = true
				add(body)
			} else if declared[id] {
				cone[id] = true
			}
		}
	}
	add(identRe.FindAllString(goal, -1))
	// ground assertions that talk about the goal's symbols bring their symbols along (one round)
	for _, i := range plain {
		ids := identRe.FindAllString(lines[i], -1)
		hit := false
		for _, id := range ids {
			if cone[id] && !generic(id) {
				hit = true
				break
			}
		}
		if hit {
			add(ids)
		}
	}
	specific := func(ids []string) map[string]bool {
		seen := map[string]bool{}
		res := map[string]bool{}
		var walk func(ids []string)
		walk = func(ids []string) {
			for _, id := range ids {
				if seen[id] {
					continue
				}
				seen[id] = true
				if body, ok := defs[id]; ok {
					walk(body)
				} else if declared[id] && !generic(id) {
					res[id] = true
				}
			}
		}
		walk(ids)
		return res
	}
	keep := map[int]bool{}
	spec := make([]map[string]bool, len(quants))
	for k, q := range quants {
		spec[k] = specific(q.syms)
	}
	for changed := true; changed; {
		changed = false
		for k, q := range quants {
			if keep[q.idx] {
				continue
			}
			rel := len(spec[k]) == 0
			for sname := range spec[k] {
				if cone[sname] {
					rel = true
					break
				}
			}
			if rel {
				keep[q.idx] = true
				add(q.syms)
				changed = true
			}
		}
	}
	var b strings.Builder
	for i, l := range lines {
		if strings.HasPrefix(l, "(assert (forall ") && !keep[i] {
			continue
		}
		b.WriteString(l)
		if i < len(lines)-1 {
			b.WriteString("\n")
		}
	}
	return b.String()
}
