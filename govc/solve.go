package main

import (
	"bytes"
	"context"
	"fmt"
	"os"
	"os/exec"
	"path/filepath"
	"strings"
	"sync"
	"time"
)

// SolveResult is the outcome of one obligation.
type SolveResult struct {
	Status  string // unsat | sat | unknown | timeout | error
	Solver  string
	Ms      int64
	Output  string
	VCBytes int
	File    string
	Answers map[string]string // per solver (thorough)
}

type solverSpec struct {
	name string
	argv func(file string, timeoutS int) []string
}

var solvers = []solverSpec{
	{"z3-5.1.0", func(f string, t int) []string { return []string{"z3-new", "-smt2", fmt.Sprintf("-T:%d", t), f} }},
	{"cvc5-1.0", func(f string, t int) []string {
		return []string{"cvc5", "--lang=smt2", fmt.Sprintf("--tlimit=%d", t*1000), f}
	}},
	{"z3-4.8.12", func(f string, t int) []string { return []string{"z3", "-smt2", fmt.Sprintf("-T:%d", t), f} }},
}

func ctxBackground() context.Context { return context.Background() }

func firstLine(s string) string {
	for _, l := range strings.Split(s, "\n") {
		l = strings.TrimSpace(l)
		if l != "" {
			return l
		}
	}
	return ""
}

func runSolver(ctx context.Context, sp solverSpec, file string, timeoutS int) (status, out string, ms int64) {
	argv := sp.argv(file, timeoutS)
	t0 := time.Now()
	cctx, cancel := context.WithTimeout(ctx, time.Duration(timeoutS+2)*time.Second)
	defer cancel()
	cmd := exec.CommandContext(cctx, argv[0], argv[1:]...)
	var buf bytes.Buffer
	cmd.Stdout = &buf
	cmd.Stderr = &buf
	_ = cmd.Run()
	ms = time.Since(t0).Milliseconds()
	out = buf.String()
	fl := firstLine(out)
	switch fl {
	case "sat", "unsat", "unknown":
		return fl, out, ms
	}
	if strings.Contains(fl, "timeout") || cctx.Err() != nil {
		return "timeout", out, ms
	}
	return "error", out, ms
}

// solve races the solvers on one query. In thorough mode all solvers are run
// and must not disagree.
func solve(dir, name, text string, timeoutS int, thorough bool) SolveResult {
	file := filepath.Join(dir, sanitize(name)+".smt2")
	if len(file) > 200 {
		file = filepath.Join(dir, fmt.Sprintf("%s_%x.smt2", sanitize(name)[:100], hashStr(name)))
	}
	_ = os.WriteFile(file, []byte(text), 0o644)
	res := SolveResult{VCBytes: len(text), File: file, Answers: map[string]string{}}
	ctx, cancel := context.WithCancel(context.Background())
	defer cancel()
	type ans struct {
		sp             solverSpec
		status, output string
		ms             int64
	}
	ch := make(chan ans, len(solvers))
	var wg sync.WaitGroup
	for _, sp := range solvers {
		wg.Add(1)
		go func(sp solverSpec) {
			defer wg.Done()
			st, out, ms := runSolver(ctx, sp, file, timeoutS)
			ch <- ans{sp, st, out, ms}
		}(sp)
	}
	go func() { wg.Wait(); close(ch) }()
	t0 := time.Now()
	var last ans
	for a := range ch {
		res.Answers[a.sp.name] = a.status
		if a.status == "sat" || a.status == "unsat" {
			if res.Status == "" {
				res.Status, res.Solver, res.Ms, res.Output = a.status, a.sp.name, a.ms, a.output
				if !thorough {
					cancel()
				}
			} else if res.Status != a.status {
				res.Status = "error"
				res.Output = fmt.Sprintf("SOLVER DISAGREEMENT: %v", res.Answers)
			}
		}
		last = a
	}
	if res.Status == "" {
		res.Status, res.Solver, res.Output = last.status, last.sp.name, last.output
		res.Ms = time.Since(t0).Milliseconds()
		// prefer "unknown" over "timeout"/"error" if some solver said so
		for _, v := range res.Answers {
			if v == "unknown" {
				res.Status = "unknown"
			}
		}
	}
	return res
}

func hashStr(s string) uint32 {
	var h uint32 = 2166136261
	for i := 0; i < len(s); i++ {
		h ^= uint32(s[i])
		h *= 16777619
	}
	return h
}

// queryText builds the SMT-LIB text for an obligation.
func queryText(sc *Script, o *Obligation, models bool) string {
	var b strings.Builder
	if models {
		b.WriteString("(set-option :produce-models true)\n")
	}
	b.WriteString("(set-logic ALL)\n")
	b.WriteString(sc.text(o.Upto))
	if o.Cover {
		b.WriteString("(assert " + o.Goal + ")\n")
	} else {
		b.WriteString("(assert (not " + o.Goal + "))\n")
	}
	b.WriteString("(check-sat)\n")
	return b.String()
}
