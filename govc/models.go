package main

import (
	"fmt"
	"go/types"
	"strings"

	"golang.org/x/tools/go/ssa"
)

// externalModel gives the built-in (assumed) contracts of library functions.
// Every model used is recorded in e.assumedExt and echoed in the evidence.
func (e *Engine) externalModel(fr *frame, ins ssa.Instruction, name string, fn *ssa.Function, args []Val, resT types.Type, reach string, heap Heap) (Val, string, bool) {
	use := func() { e.assumedExt[name]++ }
	str := func(i int) string { return e.scalar(args[i]).T }
	unary := func(op string, f func(string) string) (Val, string, bool) {
		use()
		e.needStrOp(op, []string{SStr}, SStr)
		r := e.sc.define("s", SStr, app(op, str(0)))
		e.unaryStrFacts(op, f)
		return Sc{r, SStr}, reach, true
	}
	pred := func(op string, f func(a, b string) bool) (Val, string, bool) {
		use()
		e.needStrOp(op, []string{SStr, SStr}, SBool)
		e.predStrFacts(op, str(1), f)
		return Sc{e.sc.define("p", SBool, app(op, str(0), str(1))), SBool}, reach, true
	}
	newErr := func() Val {
		return IfaceVal{Tag: e.tagOf(types.Universe.Lookup("error").Type()), Ref: e.alloc(), Str: "str_empty", BV: bvLit(0, 64)}
	}
	nilErr := e.zeroVal(types.Universe.Lookup("error").Type())
	switch name {
	case "strings.TrimSpace":
		v, r, ok := unary("gs_trim", strings.TrimSpace)
		e.sc.assume(app("bvule", app("gs_len", e.scalar(v).T), app("gs_len", str(0))))
		e.needStrOp("gs_trim", []string{SStr}, SStr)
		// idempotent
		e.sc.assume(eq(app("gs_trim", e.scalar(v).T), e.scalar(v).T))
		return v, r, ok
	case "strings.ToUpper":
		v, r, ok := unary("gs_upper", strings.ToUpper)
		e.sc.assume(eq(app("gs_upper", e.scalar(v).T), e.scalar(v).T))
		return v, r, ok
	case "strings.ToLower":
		v, r, ok := unary("gs_lower", strings.ToLower)
		e.sc.assume(eq(app("gs_lower", e.scalar(v).T), e.scalar(v).T))
		return v, r, ok
	case "strings.HasPrefix", "strings.HasSuffix":
		isPre := name == "strings.HasPrefix"
		op := "gs_hassuffix"
		if isPre {
			op = "gs_hasprefix"
		}
		var v Val
		var r string
		if isPre {
			v, r, _ = pred(op, strings.HasPrefix)
		} else {
			v, r, _ = pred(op, strings.HasSuffix)
		}
		// with a literal affix: the string is at least as long and carries the affix's bytes
		if lit, ok := e.litOf(str(1)); ok && len(lit) <= 8 {
			e.needStrOp("gs_bytes", []string{SStr}, arrSort(SI64, SI8))
			sl := app("gs_len", str(0))
			facts := []string{app("bvsge", sl, bvLit(uint64(len(lit)), 64))}
			for i := 0; i < len(lit); i++ {
				idx := bvLit(uint64(i), 64)
				if !isPre {
					idx = app("bvadd", app("bvsub", sl, bvLit(uint64(len(lit)), 64)), bvLit(uint64(i), 64))
				}
				facts = append(facts, eq(sel(app("gs_bytes", str(0)), idx), bvLit(uint64(lit[i]), 8)))
			}
			e.sc.assume(implies(e.scalar(v).T, and(facts...)))
		}
		return v, r, true
	case "strings.Contains":
		return pred("gs_contains", strings.Contains)
	case "strings.EqualFold":
		return pred("gs_equalfold", strings.EqualFold)
	case "strings.TrimPrefix", "strings.TrimSuffix", "strings.Trim", "strings.TrimLeft", "strings.TrimRight", "strings.ReplaceAll":
		use()
		op := "gs_" + strings.ToLower(strings.TrimPrefix(name, "strings."))
		sorts := []string{}
		ts := []string{}
		for i := range args {
			sorts = append(sorts, SStr)
			ts = append(ts, str(i))
		}
		e.needStrOp(op, sorts, SStr)
		r := e.sc.define("s", SStr, app(op, ts...))
		if name != "strings.ReplaceAll" {
			e.sc.assume(app("bvule", app("gs_len", r), app("gs_len", str(0))))
		}
		// literal facts when every argument is a literal
		all := true
		var ls []string
		for i := range args {
			l, ok := e.litOf(str(i))
			if !ok {
				all = false
				break
			}
			ls = append(ls, l)
		}
		if all {
			var out string
			switch name {
			case "strings.TrimPrefix":
				out = strings.TrimPrefix(ls[0], ls[1])
			case "strings.TrimSuffix":
				out = strings.TrimSuffix(ls[0], ls[1])
			case "strings.Trim":
				out = strings.Trim(ls[0], ls[1])
			case "strings.TrimLeft":
				out = strings.TrimLeft(ls[0], ls[1])
			case "strings.TrimRight":
				out = strings.TrimRight(ls[0], ls[1])
			case "strings.ReplaceAll":
				out = strings.ReplaceAll(ls[0], ls[1], ls[2])
			}
			e.sc.assume(eq(r, e.strLit(out)))
		}
		return Sc{r, SStr}, reach, true
	case "strings.Split", "strings.Fields", "strings.SplitN":
		use()
		// result: a fresh slice of strings, an opaque function of the input
		st := types.NewSlice(types.Typ[types.String])
		res := e.freshVal(st, "split").(SliceVal)
		e.sc.assume(not(eq(res.Arr, bvLit(0, 32))))
		if name == "strings.Split" {
			e.sc.assume(app("bvsge", res.Len, bvLit(1, 64)))
		}
		return SliceVal{res.Arr, bvLit(0, 64), res.Len}, reach, true
	case "strings.Join":
		use()
		return e.freshVal(types.Typ[types.String], "join"), reach, true
	case "strings.Index", "strings.LastIndex", "strings.IndexByte":
		use()
		r := e.sc.declare("stridx", SI64)
		e.sc.assume(and(app("bvsge", r, bvLit(^uint64(0), 64)), app("bvslt", r, app("gs_len", str(0)))))
		return Sc{r, SI64}, reach, true
	case "strconv.ParseInt", "strconv.ParseUint":
		use()
		// (value, ok) are uninterpreted functions of (string, base, bitsize); value is in range of bitsize
		signed := name == "strconv.ParseInt"
		pfx := "parseuint"
		if signed {
			pfx = "parseint"
		}
		e.needStrOp(pfx+".val", []string{SStr, SI64, SI64}, SI64)
		e.needStrOp(pfx+".ok", []string{SStr, SI64, SI64}, SBool)
		base := e.toInt64(e.scalar(args[1]), fn.Signature.Params().At(1).Type())
		bits := e.toInt64(e.scalar(args[2]), fn.Signature.Params().At(2).Type())
		val := e.sc.define("pv", SI64, app(pfx+".val", str(0), base, bits))
		ok := e.sc.define("pok", SBool, app(pfx+".ok", str(0), base, bits))
		// range facts for constant bit sizes
		if n, isC := e.smallConst(bits); isC && n > 0 && n < 64 {
			if signed {
				lo := bvLit(uint64(-(int64(1) << uint(n-1))), 64)
				hi := bvLit(uint64((int64(1)<<uint(n-1))-1), 64)
				e.sc.assume(implies(ok, and(app("bvsle", lo, val), app("bvsle", val, hi))))
			} else {
				e.sc.assume(implies(ok, app("bvule", val, bvLit((uint64(1)<<uint(n))-1, 64))))
			}
		}
		e.noteParse(pfx, base, bits)
		e.parseFacts(pfx, str(0), base, bits, signed)
		// on failure the value is not used by well-behaved callers; Go returns 0 or the clamped value
		errv := e.iteVal(ok, nilErr, newErr())
		return TupleVal{Sc{val, SI64}, errv}, reach, true
	case "strconv.Atoi":
		use()
		e.needStrOp("parseint.val", []string{SStr, SI64, SI64}, SI64)
		e.needStrOp("parseint.ok", []string{SStr, SI64, SI64}, SBool)
		val := e.sc.define("pv", SI64, app("parseint.val", str(0), bvLit(10, 64), bvLit(0, 64)))
		ok := e.sc.define("pok", SBool, app("parseint.ok", str(0), bvLit(10, 64), bvLit(0, 64)))
		e.noteParse("parseint", bvLit(10, 64), bvLit(0, 64))
		e.parseFacts("parseint", str(0), bvLit(10, 64), bvLit(0, 64), true)
		errv := e.iteVal(ok, nilErr, newErr())
		// Atoi returns 0 on syntax error (documented behaviour relied upon by handleDB/DW/DD is only the ok case)
		return TupleVal{Sc{val, SI64}, errv}, reach, true
	case "strconv.Itoa", "strconv.FormatInt":
		use()
		e.needStrOp("fmtint", []string{SI64, SI64}, SStr)
		base := bvLit(10, 64)
		if name == "strconv.FormatInt" {
			base = e.toInt64(e.scalar(args[1]), fn.Signature.Params().At(1).Type())
		}
		v := e.toInt64(e.scalar(args[0]), fn.Signature.Params().At(0).Type())
		r := e.sc.define("fi", SStr, app("fmtint", v, base))
		// Atoi(FormatInt(n,10)) == n
		e.needStrOp("parseint.val", []string{SStr, SI64, SI64}, SI64)
		e.needStrOp("parseint.ok", []string{SStr, SI64, SI64}, SBool)
		for _, b := range []string{bvLit(0, 64), bvLit(64, 64)} {
			e.sc.assume(implies(eq(base, bvLit(10, 64)), and(app("parseint.ok", r, bvLit(10, 64), b), eq(app("parseint.val", r, bvLit(10, 64), b), v))))
		}
		return Sc{r, SStr}, reach, true
	case "flag.Bool", "flag.Int", "flag.String":
		use()
		// a pointer to a new flag variable (its value after Parse is whatever the command line says)
		pt := fn.Signature.Results().At(0).Type().(*types.Pointer)
		ref := e.alloc()
		e.store(heap, PtrVal{Base: ref, Root: pt.Elem()}, pt.Elem(), e.freshVal(pt.Elem(), "flagval"))
		return Sc{ref, SRef}, reach, true
	case "flag.Args":
		use()
		// the positional arguments do not change after flag.Parse: every call returns the same slice
		if r, ok := e.pureMemo["flag.Args"]; ok {
			return r, reach, true
		}
		r := e.freshVal(types.NewSlice(types.Typ[types.String]), "flag_args")
		e.pureMemo["flag.Args"] = r
		return r, reach, true
	case "os.Stat":
		use()
		e.needStrOp("os.statok", []string{SStr}, SBool)
		ok := app("os.statok", str(0))
		errv := e.iteVal(ok, nilErr, newErr())
		return TupleVal{e.freshVal(fn.Signature.Results().At(0).Type(), "fileinfo"), errv}, reach, true
	case "fmt.Errorf", "errors.New":
		use()
		return newErr(), reach, true
	case "fmt.Sprintf", "fmt.Sprint", "fmt.Sprintln":
		use()
		return e.freshVal(types.Typ[types.String], "sprintf"), reach, true
	case "fmt.Printf", "fmt.Println", "fmt.Print", "fmt.Fprintf", "fmt.Fprintln":
		use()
		e.ghostEvent("print", reach, "")
		return e.havocResult(resT, "printf"), reach, true
	case "log.Printf", "log.Println", "log.Print":
		use()
		// colog gives a line the level named by its prefix; "error: ", "err: " and "alert: " are
		// the error-level ones. Only format strings that are literals are classified.
		if len(args) > 0 {
			if sc, ok := args[0].(Sc); ok && sc.S == SStr {
				for lit, c := range e.lits {
					if c == sc.T && errorLevelPrefix(lit) {
						e.ghostEvent("logerror", reach, "")
					}
				}
			}
		}
		return nil, reach, true
	case "log.Fatalf", "log.Fatal", "log.Fatalln", "os.Exit", "log.Panicf", "log.Panic":
		use()
		code := bvLit(1, 64)
		if name == "os.Exit" {
			code = e.toInt64(e.scalar(args[0]), fn.Signature.Params().At(0).Type())
		}
		if !e.pure {
			e.exitSites = append(e.exitSites, exitSite{cond: reach, code: code, heap: heap.clone(), pos: e.posOf(ins.Pos()), nwrites: len(e.ghostWrites)})
		}
		return nil, "false", true
	case "(encoding/binary.littleEndian).PutUint16", "(encoding/binary.littleEndian).PutUint32", "(encoding/binary.littleEndian).PutUint64":
		use()
		n := map[string]int{"PutUint16": 2, "PutUint32": 4, "PutUint64": 8}[fn.Name()]
		s := args[1].(SliceVal)
		v := e.scalar(args[2]).T
		e.panicSite(fr, ins, reach, app("bvsge", s.Len, bvLit(uint64(n), 64)), "index-out-of-range")
		bt := types.Typ[types.Uint8]
		for i := 0; i < n; i++ {
			p := e.elemPtr(s, bt, bvLit(uint64(i), 64))
			e.storeLeaf(heap, p, "", SI8, app(fmt.Sprintf("(_ extract %d %d)", 8*i+7, 8*i), v))
		}
		return nil, reach, true
	case "(encoding/binary.littleEndian).Uint16", "(encoding/binary.littleEndian).Uint32":
		use()
		n := map[string]int{"Uint16": 2, "Uint32": 4}[fn.Name()]
		s := args[1].(SliceVal)
		e.panicSite(fr, ins, reach, app("bvsge", s.Len, bvLit(uint64(n), 64)), "index-out-of-range")
		bt := types.Typ[types.Uint8]
		t := ""
		for i := 0; i < n; i++ {
			p := e.elemPtr(s, bt, bvLit(uint64(i), 64))
			b := e.loadLeaf(heap, p, "", SI8, false)
			if t == "" {
				t = b
			} else {
				t = app("concat", b, t)
			}
		}
		return Sc{e.sc.define("le", bvSort(8*n), t), bvSort(8 * n)}, reach, true
	}
	return nil, reach, false
}

// parseFacts gives ParseInt/ParseUint/Atoi their concrete results on every
// literal string known so far (computed by the real strconv here).
func (e *Engine) parseFacts(pfx, s, base, bits string, signed bool) {
	b, okb := e.smallConst(base)
	n, okn := e.smallConst(bits)
	if !okb || !okn {
		return
	}
	if hk := fmt.Sprintf("parse|%s|%d|%d", pfx, b, n); !e.hookKeys[hk] {
		e.hookKeys[hk] = true
		e.litHooks = append(e.litHooks, func() { e.parseFacts(pfx, s, base, bits, signed) })
	}
	for i := 0; i < len(e.litOrder); i++ {
		lit := e.litOrder[i]
		key := fmt.Sprintf("%s|%d|%d|%s", pfx, b, n, lit)
		if e.litFacts[key] {
			continue
		}
		e.litFacts[key] = true
		v, ok := concreteParse(lit, b, n, signed)
		c := e.lits[lit]
		if ok {
			e.sc.assume(and(app(pfx+".ok", c, base, bits), eq(app(pfx+".val", c, base, bits), bvLit(v, 64))))
		} else {
			e.sc.assume(not(app(pfx+".ok", c, base, bits)))
		}
	}
}

func (e *Engine) noteParse(pfx, base, bits string) {
	if _, ok := e.smallConst(base); !ok {
		return
	}
	if _, ok := e.smallConst(bits); !ok {
		return
	}
	k := pfx + "|" + base + "|" + bits
	for _, x := range e.parseCalls {
		if x == k {
			return
		}
	}
	e.parseCalls = append(e.parseCalls, k)
}


// errorLevelPrefix: the log line prefixes colog maps to the error level (or above) in gosk: colog's
// defaults plus the two headers cmd/gosk registers ("Error: ", "Error "; pinned by a calls clause on main).
func errorLevelPrefix(lit string) bool {
	for _, p := range []string{"error: ", "err: ", "alert: ", "Error: ", "Error "} {
		if strings.HasPrefix(lit, p) {
			return true
		}
	}
	return false
}
