package main

import (
	"fmt"
	"go/token"
	"go/types"
	"sort"
	"strconv"
	"strings"

	"golang.org/x/tools/go/ssa"
)

func concreteParse(s string, base, bits int, signed bool) (uint64, bool) {
	if signed {
		v, err := strconv.ParseInt(s, base, bits)
		return uint64(v), err == nil
	}
	v, err := strconv.ParseUint(s, base, bits)
	return v, err == nil
}

// loopClauses finds the contract clauses for the ghost calls of a loop.
func (e *Engine) clauseOfPred(fn *ssa.Function, pred string) (*Contract, *Clause) {
	for f := fn; f != nil; f = f.Parent() {
		if c := e.w.contractFor(f); c != nil {
			for _, cl := range c.Clauses {
				if cl.Pred == pred {
					return c, cl
				}
			}
		}
	}
	return nil, nil
}

// modSet computes the heap components that may be written inside the loop.
func (e *Engine) modSet(fr *frame, li *loopInfo) (keys map[string]bool, all bool) {
	keys = map[string]bool{}
	seen := map[*ssa.Function]bool{}
	var scanFn func(fn *ssa.Function)
	var scanIns func(ins ssa.Instruction)
	addType := func(root types.Type, pathPrefix string) {
		// every component whose key starts with the root type key (coarse but sound)
		k := typeKey(root)
		keys["T:"+k] = true
		_ = pathPrefix
	}
	scanIns = func(ins ssa.Instruction) {
		switch x := ins.(type) {
		case *ssa.Store:
			pt := x.Addr.Type().(*types.Pointer).Elem()
			// the written location is a field/element of some root object; we do not know
			// the root statically in general, so record the leaf type and let the
			// matcher select every component that can hold such a location
			switch a := x.Addr.(type) {
			case *ssa.FieldAddr:
				st := a.X.Type().(*types.Pointer).Elem()
				keys["F:"+typeKey(st)+"."+under(st).(*types.Struct).Field(a.Field).Name()] = true
			case *ssa.IndexAddr:
				switch xt := under(a.X.Type()).(type) {
				case *types.Slice:
					keys["T:"+typeKey(types.NewSlice(xt.Elem()))] = true
				case *types.Pointer:
					keys["T:"+typeKey(xt.Elem())] = true
				}
			default:
				addType(pt, "")
			}
		case *ssa.MapUpdate:
			keys["T:"+typeKey(under(x.Map.Type()))] = true
			keys["T:"+typeKey(x.Map.Type())] = true
		case *ssa.Alloc:
			addType(x.Type().(*types.Pointer).Elem(), "")
		case *ssa.MakeSlice:
			keys["T:"+typeKey(types.NewSlice(under(x.Type()).(*types.Slice).Elem()))] = true
		case *ssa.MakeMap:
			keys["T:"+typeKey(x.Type())] = true
			keys["T:"+typeKey(under(x.Type()))] = true
		case *ssa.Convert:
			if sl, ok := under(x.Type()).(*types.Slice); ok {
				keys["T:"+typeKey(types.NewSlice(sl.Elem()))] = true
			}
		case *ssa.Slice:
			if pt, ok := under(x.X.Type()).(*types.Pointer); ok {
				if at, ok := under(pt.Elem()).(*types.Array); ok {
					keys["T:"+typeKey(types.NewSlice(at.Elem()))] = true
				}
			}
		case ssa.CallInstruction:
			cc := x.Common()
			if b, ok := cc.Value.(*ssa.Builtin); ok {
				switch b.Name() {
				case "append", "copy":
					if st, ok := under(cc.Args[0].Type()).(*types.Slice); ok {
						keys["T:"+typeKey(types.NewSlice(st.Elem()))] = true
					}
				case "delete":
					keys["T:"+typeKey(under(cc.Args[0].Type()))] = true
					keys["T:"+typeKey(cc.Args[0].Type())] = true
				}
				return
			}
			f := cc.StaticCallee()
			if f == nil {
				if mc, ok := cc.Value.(*ssa.MakeClosure); ok {
					f = mc.Fn.(*ssa.Function)
				}
			}
			if f == nil {
				// dynamic call: interface method or function value. Resolve single implementations.
				if cc.IsInvoke() {
					impls := e.implementations(cc.Value.Type())
					for _, t := range impls {
						ms := e.w.Prog.MethodSets.MethodSet(t)
						if s := ms.Lookup(cc.Method.Pkg(), cc.Method.Name()); s != nil {
							if mf := e.w.Prog.MethodValue(s); mf != nil {
								scanFn(mf)
							}
						}
					}
				}
				return
			}
			name := fullName(f)
			if strings.HasPrefix(name, "(encoding/binary.littleEndian).Put") {
				keys["T:"+typeKey(types.NewSlice(types.Typ[types.Uint8]))] = true
				return
			}
			if c := e.w.contractFor(f); c != nil && len(c.byKind("ensures")) > 0 && !c.Options["inline"] {
				for _, cl := range c.byKind("assigns") {
					for _, item := range splitTop(cl.Expr, ',') {
						item = strings.TrimSpace(item)
						if item != "" && item != "nothing" {
							keys["P:"+item] = true
						}
					}
				}
				return
			}
			if e.inlinable(f) && len(f.Blocks) > 0 {
				scanFn(f)
			}
		}
	}
	scanFn = func(fn *ssa.Function) {
		if seen[fn] {
			return
		}
		seen[fn] = true
		for _, b := range fn.Blocks {
			for _, ins := range b.Instrs {
				scanIns(ins)
			}
		}
		for _, af := range fn.AnonFuncs {
			scanFn(af)
		}
	}
	for b := range li.blocks {
		for _, ins := range b.Instrs {
			scanIns(ins)
		}
	}
	return keys, false
}

func (e *Engine) inModSet(keys map[string]bool, compKey string) bool {
	for k := range keys {
		switch k[:2] {
		case "T:":
			t := k[2:]
			if compKey == t || strings.HasPrefix(compKey, t+".") || strings.HasPrefix(compKey, t+"[") || strings.HasPrefix(compKey, t+"#") {
				return true
			}
		case "F:":
			f := k[2:]
			if compKey == f || strings.HasPrefix(compKey, f+".") || strings.HasPrefix(compKey, f+"[") {
				return true
			}
		case "P:":
			if componentMatches(compKey, k[2:]) {
				return true
			}
		}
	}
	return false
}

// evalGhostAt evaluates the ghost (invariant/variant) call c as if control were
// at the loop header with the given phi bindings and heap.
func (e *Engine) evalGhostAt(fr *frame, li *loopInfo, c *ssa.Call, phis map[ssa.Value]Val, heap Heap) string {
	sub := &frame{fn: fr.fn, vals: map[ssa.Value]Val{}, loops: fr.loops, bs: fr.bs, back: fr.back}
	for k, v := range fr.vals {
		// values defined outside the loop stay visible
		if ins, ok := k.(ssa.Instruction); ok && li.blocks[ins.Block()] {
			continue
		}
		sub.vals[k] = v
	}
	for k, v := range phis {
		sub.vals[k] = v
	}
	savePure := e.pure
	saveGuard := e.guard
	e.pure = true
	e.guard = "true"
	defer func() { e.pure = savePure; e.guard = saveGuard }()
	h := heap.clone()
	// evaluate, on demand, the pure cone of the call's arguments
	var need func(v ssa.Value) Val
	need = func(v ssa.Value) Val {
		if r, ok := sub.vals[v]; ok {
			return r
		}
		switch v.(type) {
		case *ssa.Const, *ssa.Function, *ssa.Global, *ssa.Builtin:
			return e.operand(sub, v)
		}
		ins, ok := v.(ssa.Instruction)
		if !ok {
			fail("ghost argument %s is not computable at the loop header", v.Name())
		}
		if !li.blocks[ins.Block()] {
			fail("ghost argument %s defined outside the loop but not yet evaluated", v.Name())
		}
		if _, isPhi := v.(*ssa.Phi); isPhi {
			fail("ghost argument depends on phi %s of an inner block", v.Name())
		}
		var ops []*ssa.Value
		ops = ins.Operands(ops)
		for _, op := range ops {
			if *op != nil {
				need(*op)
			}
		}
		switch x := ins.(type) {
		case *ssa.Call:
			if !e.isPureCall(x) {
				fail("ghost argument depends on impure call %s", x)
			}
		case *ssa.Store, *ssa.MapUpdate:
			fail("ghost cone contains a store")
		}
		st := &blockState{}
		e.execInstr(sub, ins.Block(), ins, "true", h, st)
		return sub.vals[v]
	}
	var args []Val
	for _, a := range c.Call.Args {
		args = append(args, need(a))
	}
	pf := c.Call.StaticCallee()
	res := e.execFunction(pf, args, nil, "true", h)
	return e.scalar(res.ret).T
}

// enterLoop: check invariants on entry, havoc the loop state, assume invariants.
func (e *Engine) enterLoop(fr *frame, li *loopInfo, reach string, heap Heap, conds []string, idxs []int) (string, Heap) {
	hdr := li.header
	if len(li.invs) == 0 && !e.pure {
		fail("loop at %s in %s has no invariant clause", e.posOf(firstPos(hdr)), fr.fn.Name())
	}
	// entry values of the header phis
	entry := map[ssa.Value]Val{}
	var phis []*ssa.Phi
	for _, ins := range hdr.Instrs {
		if phi, ok := ins.(*ssa.Phi); ok {
			phis = append(phis, phi)
			entry[phi] = e.phiValue(fr, phi, conds, idxs)
		}
	}
	for _, c := range li.invs {
		_, cl := e.clauseOfPred(fr.fn, c.Call.StaticCallee().Name())
		t := e.evalGhostAt(fr, li, c, entry, heap)
		e.oblige(&Obligation{
			Name:   fmt.Sprintf("%s.loop%d.invariant.%s.entry", e.rootName(), clLoop(cl), clLabel(cl)),
			Kind:   "inv-entry",
			Clause: clExpr(cl),
			Goal:   implies(reach, t),
			Pos:    e.posOf(firstPos(hdr)),
			Func:   e.rootName(),
		})
	}
	// havoc
	keys, _ := e.modSet(fr, li)
	h := heap // shared linear heap: the havoc is guarded by the loop's entry condition
	// components not yet created but written in the loop are created lazily with their
	// initial symbol; since nothing before the loop touched them, havocking is a fresh symbol too
	var ckeys []string
	for _, k := range e.compOrder {
		ckeys = append(ckeys, k)
	}
	sort.Strings(ckeys)
	for _, k := range ckeys {
		if e.inModSet(keys, k) {
			fresh := e.sc.declare("Hloop_"+k, e.comps[k].sort)
			h[k] = e.sc.define("Hl_"+k, e.comps[k].sort, ite(reach, fresh, e.heapGet(h, e.comps[k])))
			e.dirty[k] = true
		}
	}
	e.loopMods(li, keys)
	hv := map[ssa.Value]Val{}
	for _, phi := range phis {
		v := e.freshVal(phi.Type(), "loop_"+phi.Comment+"_"+phi.Name())
		hv[phi] = v
		fr.vals[phi] = v
	}
	hreach := e.sc.declare("r_loop", SBool)
	// the loop head is reached only if the loop was entered
	e.sc.assume(implies(hreach, reach))
	for _, c := range li.invs {
		t := e.evalGhostAt(fr, li, c, hv, h)
		e.sc.assume(implies(hreach, t))
	}
	li2 := liState{heap: h.clone(), phis: hv, reach: hreach}
	e.loopStates[li] = &li2
	return hreach, h
}

type liState struct {
	heap  Heap
	phis  map[ssa.Value]Val
	reach string
	mods  map[string]bool
}

func (e *Engine) loopMods(li *loopInfo, keys map[string]bool) {
	if e.loopModKeys == nil {
		e.loopModKeys = map[*loopInfo]map[string]bool{}
	}
	e.loopModKeys[li] = keys
}

func firstPos(b *ssa.BasicBlock) (p token.Pos) {
	for _, ins := range b.Instrs {
		if ins.Pos().IsValid() {
			return ins.Pos()
		}
	}
	for _, s := range b.Succs {
		for _, ins := range s.Instrs {
			if ins.Pos().IsValid() {
				return ins.Pos()
			}
		}
	}
	return 0
}

func clLoop(cl *Clause) int {
	if cl == nil {
		return -1
	}
	return cl.Loop
}
func clLabel(cl *Clause) string {
	if cl == nil {
		return "?"
	}
	return cl.Label
}
func clExpr(cl *Clause) string {
	if cl == nil {
		return ""
	}
	return cl.Expr
}

// closeLoop: on a back edge, the invariants must hold again and the variant
// must have decreased.
func (e *Engine) closeLoop(fr *frame, li *loopInfo, tail *ssa.BasicBlock, succIdx int) {
	ts := fr.bs[tail]
	cond := ts.edge[succIdx]
	hdr := li.header
	// phi values along this edge
	back := map[ssa.Value]Val{}
	predIdx := -1
	count := 0
	for si, s := range tail.Succs {
		if s == hdr {
			if si == succIdx {
				break
			}
			count++
		}
	}
	occ := 0
	for j, p := range hdr.Preds {
		if p == tail {
			if occ == count {
				predIdx = j
				break
			}
			occ++
		}
	}
	for _, ins := range hdr.Instrs {
		if phi, ok := ins.(*ssa.Phi); ok {
			back[phi] = e.operand(fr, phi.Edges[predIdx])
		}
	}
	// components created inside the loop body that were not havocked at the header
	// (first touched in the body) are handled conservatively: they must be in the mod set
	ls := e.loopStates[li]
	for _, c := range li.invs {
		_, cl := e.clauseOfPred(fr.fn, c.Call.StaticCallee().Name())
		t := e.evalGhostAt(fr, li, c, back, ts.heap)
		e.oblige(&Obligation{
			Name:   fmt.Sprintf("%s.loop%d.invariant.%s.preserved", e.rootName(), clLoop(cl), clLabel(cl)),
			Kind:   "inv-preserved",
			Clause: clExpr(cl),
			Goal:   implies(cond, t),
			Pos:    e.posOf(firstPos(hdr)),
			Func:   e.rootName(),
		})
	}
	for _, c := range li.decs {
		_, cl := e.clauseOfPred(fr.fn, c.Call.StaticCallee().Name())
		m0 := e.evalGhostAt(fr, li, c, ls.phis, ls.heap)
		m1 := e.evalGhostAt(fr, li, c, back, ts.heap)
		e.oblige(&Obligation{
			Name:   fmt.Sprintf("%s.loop%d.decreases", e.rootName(), clLoop(cl)),
			Kind:   "decreases",
			Clause: clExpr(cl),
			Goal:   implies(cond, and(app("bvsge", m0, bvLit(0, 64)), app("bvslt", m1, m0))),
			Pos:    e.posOf(firstPos(hdr)),
			Func:   e.rootName(),
		})
	}
	if len(li.decs) == 0 && !e.pure {
		// range loops over slices terminate by construction (index bounded by len)
		isRange := false
		for _, ins := range hdr.Instrs {
			if phi, ok := ins.(*ssa.Phi); ok && phi.Comment == "rangeindex" {
				isRange = true
			}
		}
		if !isRange {
			e.warn("loop at %s has no decreases clause: termination not proved", e.posOf(firstPos(hdr)))
		}
	}
}
