package main

import (
	"regexp"
	"fmt"
	"go/token"
	"go/types"
	"os"
	"sort"
	"strconv"
	"strings"

	"golang.org/x/tools/go/ssa"
)

func concreteParse(s string, base, bits int, signed bool) (uint64, bool) {
	if signed {
		v, err := strconv.ParseInt(s, base, bits)
		return uint64(v), err == nil
	}
	v, err := strconv.ParseUint(s, base, bits)
	return v, err == nil
}

// loopClauses finds the contract clauses for the ghost calls of a loop.
func (e *Engine) clauseOfPred(fn *ssa.Function, pred string) (*Contract, *Clause) {
	for f := fn; f != nil; f = f.Parent() {
		if c := e.w.contractFor(f); c != nil {
			for _, cl := range c.Clauses {
				if cl.Pred == pred {
					return c, cl
				}
			}
		}
	}
	return nil, nil
}

// writeScanner collects, by a syntactic provenance analysis of SSA, the heap
// components in which code may write objects that existed before the code started
// (writes to objects it allocates itself are not effects a caller can observe).
// globalWrite is a store into package-level state.
type globalWrite struct {
	g   *ssa.Global
	pos string
	fn  *ssa.Function
}

// globalRoot: the package-level variable an address or container value is derived from
// (directly, through field/element selection, or by loading a pointer/map/slice held in it).
func globalRoot(v ssa.Value, depth int) *ssa.Global {
	if depth > 12 {
		return nil
	}
	switch x := v.(type) {
	case *ssa.Global:
		return x
	case *ssa.FieldAddr:
		return globalRoot(x.X, depth+1)
	case *ssa.IndexAddr:
		return globalRoot(x.X, depth+1)
	case *ssa.UnOp:
		if x.Op == token.MUL {
			return globalRoot(x.X, depth+1)
		}
	case *ssa.Slice:
		return globalRoot(x.X, depth+1)
	case *ssa.ChangeType:
		return globalRoot(x.X, depth+1)
	}
	return nil
}

type objPoint struct {
	val ssa.Value
	pat string
}

// outsideScope: v is computed outside the scanned scope (a parameter, a constant, or an
// instruction that is not part of it).
func outsideScope(v ssa.Value, inScope func(ssa.Instruction) bool) bool {
	switch x := v.(type) {
	case *ssa.Parameter, *ssa.Const, *ssa.Global, *ssa.FreeVar:
		return true
	case ssa.Instruction:
		return !inScope(x)
	}
	return false
}

type writeScanner struct {
	paramGlobal map[*ssa.Parameter]*ssa.Global // parameters that receive a value derived from a package-level variable
	globals     []globalWrite
	fieldPoints []*ssa.FieldAddr // fields written through pointers computed outside the scope
	slicePoints []ssa.Value      // slices (computed outside the scope) whose elements are written
	objPoints   []objPoint       // objects (computed outside the scope) that a callee under contract may write, per component pattern
	points      []ssa.Value      // addresses of single cells written (values of the enclosing frame)
	pointOK     bool             // collect point writes (only when scanning the blocks of the frame itself)
	e           *Engine
	keys        map[string]bool
	seen        map[string]bool
	phiSeen     map[*ssa.Phi]bool
	followAll   bool // also descend into callees that have contracts (whole-program scans)
}

func (ws *writeScanner) isFreshRoot(v ssa.Value, inScope func(ssa.Instruction) bool, paramFresh map[*ssa.Parameter]bool, depth int) bool {
	if depth > 20 {
		return false
	}
	switch x := v.(type) {
	case *ssa.Alloc:
		return inScope(x)
	case *ssa.MakeSlice:
		return inScope(x)
	case *ssa.MakeMap:
		return inScope(x)
	case *ssa.FieldAddr:
		return ws.isFreshRoot(x.X, inScope, paramFresh, depth+1)
	case *ssa.IndexAddr:
		return ws.isFreshRoot(x.X, inScope, paramFresh, depth+1)
	case *ssa.Slice:
		return ws.isFreshRoot(x.X, inScope, paramFresh, depth+1)
	case *ssa.ChangeType:
		return ws.isFreshRoot(x.X, inScope, paramFresh, depth+1)
	case *ssa.MakeInterface:
		return ws.isFreshRoot(x.X, inScope, paramFresh, depth+1)
	case *ssa.Convert:
		if _, ok := under(x.Type()).(*types.Slice); ok {
			return inScope(x) // []byte(string) allocates
		}
		return false
	case *ssa.Call:
		if b, ok := x.Call.Value.(*ssa.Builtin); ok && b.Name() == "append" {
			return inScope(x)
		}
		if f := x.Call.StaticCallee(); f != nil {
			switch fullName(f) {
			case "github.com/samber/lo.Map", "github.com/samber/lo.Filter", "github.com/samber/lo.FlatMap", "strings.Split", "strings.Fields":
				return inScope(x) // these return newly allocated slices
			}
		}
		return false
	case *ssa.Parameter:
		return paramFresh != nil && paramFresh[x]
	case *ssa.Phi:
		// fresh if every incoming value is (cycles through the phi itself are ignored)
		if ws.phiSeen == nil {
			ws.phiSeen = map[*ssa.Phi]bool{}
		}
		if ws.phiSeen[x] {
			return true
		}
		ws.phiSeen[x] = true
		defer delete(ws.phiSeen, x)
		for _, ed := range x.Edges {
			if c, ok := ed.(*ssa.Const); ok && c.Value == nil {
				continue // nil slice: nothing to write through
			}
			if !ws.isFreshRoot(ed, inScope, paramFresh, depth+1) {
				return false
			}
		}
		return true
	}
	return false
}

func (ws *writeScanner) scanIns(ins ssa.Instruction, inScope func(ssa.Instruction) bool, paramFresh map[*ssa.Parameter]bool) {
	e := ws.e
	keys := ws.keys
	switch x := ins.(type) {
	case *ssa.Store:
		if g := ws.globalRootP(x.Addr); g != nil {
			ws.globals = append(ws.globals, globalWrite{g, e.posOf(x.Pos()), ins.Parent()})
		}
		if ws.isFreshRoot(x.Addr, inScope, paramFresh, 0) {
			return
		}
		outside := func(v ssa.Value) bool {
			if !ws.pointOK {
				return false
			}
			switch y := v.(type) {
			case *ssa.Parameter:
				return paramFresh == nil
			case ssa.Instruction:
				return !inScope(y)
			}
			return false
		}
		switch a := x.Addr.(type) {
		case *ssa.FieldAddr:
			if outside(a.X) {
				ws.fieldPoints = append(ws.fieldPoints, a)
				return
			}
			// follow the chain of field selections to the object the pointer points into
			names := []string{}
			var base ssa.Value = a
			for {
				fa, ok := base.(*ssa.FieldAddr)
				if !ok {
					break
				}
				st := fa.X.Type().(*types.Pointer).Elem()
				names = append([]string{under(st).(*types.Struct).Field(fa.Field).Name()}, names...)
				base = fa.X
			}
			if ia, ok := base.(*ssa.IndexAddr); ok {
				if sl, ok := under(ia.X.Type()).(*types.Slice); ok {
					keys["E:"+typeKey(types.NewSlice(sl.Elem()))] = true
					return
				}
			}
			root := base.Type().(*types.Pointer).Elem()
			keys["F:"+typeKey(root)+"."+strings.Join(names, ".")] = true
		case *ssa.IndexAddr:
			if _, isSl := under(a.X.Type()).(*types.Slice); isSl && outside(a.X) {
				ws.slicePoints = append(ws.slicePoints, a.X)
				return
			}
			switch xt := under(a.X.Type()).(type) {
			case *types.Slice:
				if os.Getenv("GOVC_DEBUG") != "" {
					fmt.Fprintf(os.Stderr, "write-scan: store through %s in %s at %s\n", a.X, ins.Parent(), e.posOf(ins.Pos()))
				}
				keys["E:"+typeKey(types.NewSlice(xt.Elem()))] = true
			case *types.Pointer:
				keys["T:"+typeKey(xt.Elem())] = true
			}
		default:
			// *p = v : the cell p points to (for a slice-typed cell: its header, not its backing array).
			// If p is computed outside the scanned scope (a local variable of the enclosing function
			// whose address is taken), only that one cell is affected.
			if ai, ok := x.Addr.(ssa.Instruction); ok && ws.pointOK && !inScope(ai) {
				ws.points = append(ws.points, x.Addr)
			} else if _, ok := x.Addr.(*ssa.Parameter); ok && ws.pointOK && paramFresh == nil {
				ws.points = append(ws.points, x.Addr)
			} else {
				keys["C:"+typeKey(x.Addr.Type().(*types.Pointer).Elem())] = true
			}
		}
	case *ssa.MapUpdate:
		if g := ws.globalRootP(x.Map); g != nil {
			ws.globals = append(ws.globals, globalWrite{g, e.posOf(x.Pos()), ins.Parent()})
		}
		if ws.isFreshRoot(x.Map, inScope, paramFresh, 0) {
			return
		}
		keys["T:"+typeKey(under(x.Map.Type()))] = true
		keys["T:"+typeKey(x.Map.Type())] = true
	case ssa.CallInstruction:
		cc := x.Common()
		if b, ok := cc.Value.(*ssa.Builtin); ok {
			switch b.Name() {
			case "copy":
				if !ws.isFreshRoot(cc.Args[0], inScope, paramFresh, 0) {
					if st, ok := under(cc.Args[0].Type()).(*types.Slice); ok {
						keys["E:"+typeKey(types.NewSlice(st.Elem()))] = true
					}
				}
			case "delete":
				if !ws.isFreshRoot(cc.Args[0], inScope, paramFresh, 0) {
					keys["T:"+typeKey(under(cc.Args[0].Type()))] = true
					keys["T:"+typeKey(cc.Args[0].Type())] = true
				}
			}
			return
		}
		f := cc.StaticCallee()
		if f == nil {
			if mc, ok := cc.Value.(*ssa.MakeClosure); ok {
				f = mc.Fn.(*ssa.Function)
			}
		}
		if f == nil && !cc.IsInvoke() {
			if sig, ok := under(cc.Value.Type()).(*types.Signature); ok {
				for _, cand := range e.addressTakenFuncs(sig) {
					ws.scanFn(cand, nil)
				}
			}
			return
		}
		if f == nil {
			if cc.IsInvoke() {
				if named, ok := cc.Value.Type().(*types.Named); ok && named.Obj().Pkg() != nil {
					id := named.Obj().Pkg().Path() + ".(" + named.Obj().Name() + ")." + cc.Method.Name()
					if c := e.w.Contracts[id]; c != nil && c.Options["pure"] && !ws.followAll {
						return // an interface method declared pure has no effect on existing objects
					}
				}
				for _, t := range e.implementations(cc.Value.Type()) {
					ms := e.w.Prog.MethodSets.MethodSet(t)
					if s := ms.Lookup(cc.Method.Pkg(), cc.Method.Name()); s != nil {
						if mf := e.w.Prog.MethodValue(s); mf != nil {
							ws.scanFn(mf, nil)
						}
					}
				}
			}
			return
		}
		name := fullName(f)
		switch {
		case strings.HasPrefix(name, "(encoding/binary.littleEndian).Put"):
			if !ws.isFreshRoot(cc.Args[1], inScope, paramFresh, 0) {
				keys["E:"+typeKey(types.NewSlice(types.Typ[types.Uint8]))] = true
			}
			return
		case name == "sort.Slice" || name == "sort.SliceStable" || name == "sort.Sort" || name == "sort.Stable" || name == "sort.Strings" || name == "sort.Ints":
			// permutes the elements of its argument
			if mi, ok := cc.Args[0].(*ssa.MakeInterface); ok {
				if st, ok := under(mi.X.Type()).(*types.Slice); ok {
					if !ws.isFreshRoot(mi.X, inScope, paramFresh, 0) {
						keys["E:"+typeKey(types.NewSlice(st.Elem()))] = true
					}
					return
				}
			}
			if st, ok := under(cc.Args[0].Type()).(*types.Slice); ok {
				if !ws.isFreshRoot(cc.Args[0], inScope, paramFresh, 0) {
					keys["E:"+typeKey(types.NewSlice(st.Elem()))] = true
				}
				return
			}
			keys["*"] = true
			return
		case strings.HasPrefix(name, "github.com/lunixbochs/struc.Pack"):
			// writes the buffer passed as io.Writer (model: append to its buf field, fresh backing array)
			if mi, ok := cc.Args[0].(*ssa.MakeInterface); ok {
				if ws.isFreshRoot(mi.X, inScope, paramFresh, 0) {
					return
				}
				if ws.pointOK && paramFresh == nil && outsideScope(mi.X, inScope) {
					ws.objPoints = append(ws.objPoints, objPoint{mi.X, "Buffer.buf"})
					return
				}
			}
			keys["T:bytes.Buffer"] = true
			return
		case strings.HasPrefix(name, "(*bytes.Buffer).Write"), name == "(*text/template.Template).Execute":
			// writes the buffer object (its buf field and backing array)
			wi := 0
			if name == "(*text/template.Template).Execute" {
				wi = 1
			}
			if wi < len(cc.Args) && ws.isFreshRoot(cc.Args[wi], inScope, paramFresh, 0) {
				return
			}
			// (the models append into a fresh backing array: no existing byte array is written in place)
			if wi < len(cc.Args) && wi == 0 && ws.pointOK && paramFresh == nil && outsideScope(cc.Args[0], inScope) {
				ws.objPoints = append(ws.objPoints, objPoint{cc.Args[0], "Buffer.buf"})
				return
			}
			keys["T:bytes.Buffer"] = true
			return
		}
		if c := e.w.contractFor(f); c != nil && len(c.byKind("ensures")) > 0 && !c.Options["inline"] && !ws.followAll {
			for _, cl := range c.byKind("assigns") {
				for _, item := range splitTop(cl.Expr, ',') {
					item = strings.TrimSpace(item)
					if item == "" || item == "nothing" {
						continue
					}
					pname, pat := assignsItem(item)
					if pname != "" {
						// only the object passed for that parameter is written
						done := false
						for i, prm := range f.Params {
							if prm.Name() != pname || i >= len(cc.Args) {
								continue
							}
							a := cc.Args[i]
							if ws.isFreshRoot(a, inScope, paramFresh, 0) {
								done = true // an object created in the scope itself
							} else if ws.pointOK && paramFresh == nil && outsideScope(a, inScope) {
								ws.objPoints = append(ws.objPoints, objPoint{a, pat})
								done = true
							}
						}
						if done {
							continue
						}
					}
					keys["P:"+pat] = true
				}
			}
			return
		}
		if (e.inlinable(f) || (ws.followAll && e.inRepo(f))) && len(f.Blocks) > 0 {
			pf := map[*ssa.Parameter]bool{}
			for i, p := range f.Params {
				if i < len(cc.Args) && ws.isFreshRoot(cc.Args[i], inScope, paramFresh, 0) {
					pf[p] = true
				}
				if i < len(cc.Args) && ws.followAll {
					if g := ws.globalRootP(cc.Args[i]); g != nil {
						if ws.paramGlobal == nil {
							ws.paramGlobal = map[*ssa.Parameter]*ssa.Global{}
						}
						if ws.paramGlobal[p] == nil {
							ws.paramGlobal[p] = g
							// re-scan the callee with the new fact
							for k := range ws.seen {
								if strings.HasPrefix(k, fmt.Sprintf("%p|", f)) {
									delete(ws.seen, k)
								}
							}
						}
					}
				}
			}
			ws.scanFn(f, pf)
		}
	}
}

// globalRootP is globalRoot extended through parameters known to carry global-derived values.
func (ws *writeScanner) globalRootP(v ssa.Value) *ssa.Global {
	for depth := 0; depth < 12; depth++ {
		if g := globalRoot(v, 0); g != nil {
			return g
		}
		switch x := v.(type) {
		case *ssa.Parameter:
			return ws.paramGlobal[x]
		case *ssa.FieldAddr:
			v = x.X
		case *ssa.IndexAddr:
			v = x.X
		case *ssa.UnOp:
			v = x.X
		case *ssa.Slice:
			v = x.X
		case *ssa.ChangeType:
			v = x.X
		default:
			return nil
		}
	}
	return nil
}

func (ws *writeScanner) scanFn(fn *ssa.Function, paramFresh map[*ssa.Parameter]bool) {
	sig := fmt.Sprintf("%p|", fn)
	for _, p := range fn.Params {
		if paramFresh[p] {
			sig += "1"
		} else {
			sig += "0"
		}
	}
	if ws.seen[sig] {
		return
	}
	ws.seen[sig] = true
	savePoint := ws.pointOK
	ws.pointOK = false
	defer func() { ws.pointOK = savePoint }()
	all := func(ssa.Instruction) bool { return true } // everything in a callee happens inside the scope
	for _, b := range fn.Blocks {
		for _, ins := range b.Instrs {
			ws.scanIns(ins, all, paramFresh)
		}
	}
	for _, af := range fn.AnonFuncs {
		ws.scanFn(af, nil)
	}
}

// modSet computes the heap components in which the loop may write objects that
// already exist when an iteration starts.
func (e *Engine) modSet(fr *frame, li *loopInfo) (keys map[string]bool, all bool) {
	ws := &writeScanner{e: e, keys: map[string]bool{}, seen: map[string]bool{}, pointOK: true}
	inThisLoop := func(ins ssa.Instruction) bool { return li.blocks[ins.Block()] }
	for b := range li.blocks {
		for _, ins := range b.Instrs {
			ws.scanIns(ins, inThisLoop, nil)
		}
	}
	li.points = ws.points
	li.fieldPoints = ws.fieldPoints
	li.slicePoints = ws.slicePoints
	li.objPoints = ws.objPoints
	return ws.keys, false
}

// globalWritesOf lists the stores into package-level variables that fn or anything it
// can call (statically, through interfaces, or through function values) performs.
func (e *Engine) globalWritesOf(fn *ssa.Function) []globalWrite {
	ws := &writeScanner{e: e, keys: map[string]bool{}, seen: map[string]bool{}, followAll: true}
	ws.scanFn(fn, nil)
	return ws.globals
}

// writeSetOfCall: the components a call of fn may write in pre-existing objects.
func (e *Engine) writeSetOfFunc(fn *ssa.Function) map[string]bool {
	ws := &writeScanner{e: e, keys: map[string]bool{}, seen: map[string]bool{}}
	ws.scanFn(fn, nil)
	return ws.keys
}

var reArrayKey = regexp.MustCompile(`^\[\d+\]`)

func (e *Engine) inModSet(keys map[string]bool, compKey string) bool {
	for k := range keys {
		if k == "*" {
			return true
		}
		if (k[:2] == "T:" || k[:2] == "C:") && reArrayKey.MatchString(k[2:]) {
			// array objects keep their elements in the component of slice elements
			if strings.HasPrefix(compKey, reArrayKey.ReplaceAllString(k[2:], "[]")+"[") {
				return true
			}
		}
		switch k[:2] {
		case "T:":
			t := k[2:]
			if compKey == t || strings.HasPrefix(compKey, t+".") || strings.HasPrefix(compKey, t+"[") || strings.HasPrefix(compKey, t+"#") {
				return true
			}
		case "C:":
			t := k[2:]
			if compKey == t || strings.HasPrefix(compKey, t+".") {
				return true
			}
		case "E:":
			t := k[2:]
			if strings.HasPrefix(compKey, t+"[") {
				return true
			}
		case "F:":
			f := k[2:]
			if compKey == f || strings.HasPrefix(compKey, f+".") || strings.HasPrefix(compKey, f+"[") {
				return true
			}
		case "P:":
			if componentMatches(compKey, k[2:]) {
				return true
			}
		}
	}
	return false
}

// evalGhostAt evaluates the ghost (invariant/variant) call c as if control were
// at the loop header with the given phi bindings and heap.
func (e *Engine) evalGhostAt(fr *frame, li *loopInfo, c *ssa.Call, phis map[ssa.Value]Val, heap Heap) string {
	sub := &frame{fn: fr.fn, vals: map[ssa.Value]Val{}, loops: fr.loops, bs: fr.bs, back: fr.back}
	for k, v := range fr.vals {
		// values defined outside the loop stay visible
		if ins, ok := k.(ssa.Instruction); ok && li.blocks[ins.Block()] {
			continue
		}
		sub.vals[k] = v
	}
	for k, v := range phis {
		sub.vals[k] = v
	}
	savePure := e.pure
	saveGuard := e.guard
	e.pure = true
	e.guard = "true"
	defer func() { e.pure = savePure; e.guard = saveGuard }()
	h := heap.clone()
	// the header's own pure instructions (range index increment, loop condition operands)
	for _, ins := range li.header.Instrs {
		switch x := ins.(type) {
		case *ssa.BinOp, *ssa.UnOp, *ssa.FieldAddr, *ssa.IndexAddr, *ssa.Field, *ssa.Convert, *ssa.ChangeType, *ssa.Extract, *ssa.Slice, *ssa.Lookup:
			func() {
				defer func() { recover() }()
				st := &blockState{}
				e.execInstr(sub, li.header, x, "true", h, st)
			}()
		case *ssa.Call:
			if e.isPureCall(x) {
				if _, isG := isGhostInv(x); !isG {
					func() {
						defer func() { recover() }()
						st := &blockState{}
						e.execInstr(sub, li.header, x, "true", h, st)
					}()
				}
			}
		}
	}
	// evaluate, on demand, the pure cone of the call's arguments
	var need func(v ssa.Value) Val
	need = func(v ssa.Value) Val {
		if r, ok := sub.vals[v]; ok {
			return r
		}
		switch v.(type) {
		case *ssa.Const, *ssa.Function, *ssa.Global, *ssa.Builtin:
			return e.operand(sub, v)
		}
		ins, ok := v.(ssa.Instruction)
		if !ok {
			fail("ghost argument %s is not computable at the loop header", v.Name())
		}
		if !li.blocks[ins.Block()] {
			fail("ghost argument %s defined outside the loop but not yet evaluated", v.Name())
		}
		if _, isPhi := v.(*ssa.Phi); isPhi {
			fail("ghost argument depends on phi %s of an inner block", v.Name())
		}
		var ops []*ssa.Value
		ops = ins.Operands(ops)
		for _, op := range ops {
			if *op != nil {
				need(*op)
			}
		}
		switch x := ins.(type) {
		case *ssa.Call:
			if !e.isPureCall(x) {
				fail("ghost argument depends on impure call %s", x)
			}
		case *ssa.Store, *ssa.MapUpdate:
			fail("ghost cone contains a store")
		case *ssa.Alloc:
			fail("a loop invariant mentions a variable that is re-created in every iteration (%s)", x.Comment)
		}
		st := &blockState{}
		e.execInstr(sub, ins.Block(), ins, "true", h, st)
		return sub.vals[v]
	}
	var args []Val
	for _, a := range c.Call.Args {
		args = append(args, need(a))
	}
	pf := c.Call.StaticCallee()
	res := e.execFunction(pf, args, nil, "true", h)
	return e.scalar(res.ret).T
}

// enterLoop: check invariants on entry, havoc the loop state, assume invariants.
func (e *Engine) enterLoop(fr *frame, li *loopInfo, reach string, heap Heap, conds []string, idxs []int) (string, Heap) {
	hdr := li.header
	if len(li.invs) == 0 && !e.pure {
		fail("loop at %s in %s has no invariant clause", e.posOf(firstPos(hdr)), fr.fn.Name())
	}
	// entry values of the header phis
	entry := map[ssa.Value]Val{}
	var phis []*ssa.Phi
	for _, ins := range hdr.Instrs {
		if phi, ok := ins.(*ssa.Phi); ok {
			phis = append(phis, phi)
			entry[phi] = e.phiValue(fr, phi, conds, idxs)
		}
	}
	for _, c := range li.invs {
		_, cl := e.clauseOfPred(fr.fn, c.Call.StaticCallee().Name())
		t := e.evalGhostAt(fr, li, c, entry, heap)
		e.oblige(&Obligation{
			Name:   fmt.Sprintf("%s.loop%d.invariant.%s.entry", e.rootName(), clLoop(cl), clLabel(cl)),
			Kind:   "inv-entry",
			Clause: clExpr(cl),
			Goal:   implies(reach, t),
			Pos:    e.posOf(firstPos(hdr)),
			Func:   e.rootName(),
			Using:  clUsing(cl),
		})
	}
	// havoc
	keys, _ := e.modSet(fr, li)
	h := heap // shared linear heap: the havoc is guarded by the loop's entry condition
	// components not yet created but written in the loop are created lazily with their
	// initial symbol; since nothing before the loop touched them, havocking is a fresh symbol too
	var ckeys []string
	for _, k := range e.compOrder {
		ckeys = append(ckeys, k)
	}
	sort.Strings(ckeys)
	for _, k := range ckeys {
		if e.inModSet(keys, k) {
			fresh := e.sc.declare("Hloop_"+k, e.comps[k].sort)
			h[k] = e.sc.define("Hl_"+k, e.comps[k].sort, ite(reach, fresh, e.heapGet(h, e.comps[k])))
			e.dirty[k] = true
		}
	}
	// single cells written in the loop (address-taken locals): havoc just those cells
	seenPt := map[ssa.Value]bool{}
	for _, pv := range li.points {
		if seenPt[pv] {
			continue
		}
		seenPt[pv] = true
		addr, ok := fr.vals[pv]
		if !ok {
			keys["C:"+typeKey(pv.Type().(*types.Pointer).Elem())] = true
			continue
		}
		et := pv.Type().(*types.Pointer).Elem()
		saveG := e.guard
		e.guard = reach
		fv := e.freshVal(et, "loopcell")
		if sv, ok := fv.(SliceVal); ok && cellOffZero(pv) {
			// every value ever stored in this slice variable starts at offset 0 of its backing array
			fv = SliceVal{sv.Arr, bvLit(0, 64), sv.Len}
		}
		if nv, ok := fv.(SliceVal); ok && cellAllocOnly(pv, map[ssa.Value]bool{}) {
			// every value ever stored in this variable is nil or a slice allocated by this execution
			// (make, append): its backing array is no object of the pre-state
			e.sc.assume(or(eq(nv.Arr, bvLit(0, 32)), app("bvuge", nv.Arr, bvLit(0x80000000, 32))))
		}
		if nv, ok := fv.(SliceVal); ok && appendOnlyInLoop(pv, li) {
			if ov, ok := e.load(h, e.asPtr(addr, pv.Type()), et).(SliceVal); ok {
				e.assumePrefix(fr, li, keys, h, reach, under(et).(*types.Slice).Elem(), nv, ov)
			}
		}
		e.store(h, e.asPtr(addr, pv.Type()), et, fv)
		e.guard = saveG
	}
	// objects written by callees under contract (assigns param->Pattern) through loop-invariant
	// references: havoc the matching components of those objects only
	for _, op := range li.objPoints {
		v, ok := fr.vals[op.val]
		ref, okr := "", false
		if ok {
			switch x := v.(type) {
			case Sc:
				if x.S == SRef {
					ref, okr = x.T, true
				}
			case PtrVal:
				if len(x.Path) == 0 {
					ref, okr = x.Base, true
				}
			case SliceVal:
				ref, okr = x.Arr, true
			}
		}
		if !okr {
			keys["P:"+op.pat] = true
			continue
		}
		var ks []string
		for _, k := range e.compOrder {
			ks = append(ks, k)
		}
		for _, k := range ks {
			if componentMatches(k, op.pat) && !e.inModSet(keys, k) {
				cp := e.comps[k]
				fresh := e.sc.declare("Hloopobj_"+k, cp.sort)
				cur := e.heapGet(h, cp)
				h[k] = e.sc.define("Hl_"+k, cp.sort, sto(cur, ref, ite(reach, sel(fresh, ref), sel(cur, ref))))
				if !e.isFresh(ref) {
					e.dirty[k] = true
				}
			}
		}
	}
	// fields written through loop-invariant pointers: havoc that field of that object only
	for _, fa := range li.fieldPoints {
		bv, ok := fr.vals[fa.X]
		if !ok {
			st := fa.X.Type().(*types.Pointer).Elem()
			keys["F:"+typeKey(st)+"."+under(st).(*types.Struct).Field(fa.Field).Name()] = true
			continue
		}
		stT := fa.X.Type().(*types.Pointer).Elem()
		st := under(stT).(*types.Struct)
		ft := st.Field(fa.Field).Type()
		saveG := e.guard
		e.guard = reach
		e.store(h, e.asPtr(bv, fa.X.Type()).field(fa.Field, st.Field(fa.Field).Name()), ft, e.freshVal(ft, "loopfield"))
		e.guard = saveG
	}
	// elements written through loop-invariant slices: havoc that backing array only
	for _, sv := range li.slicePoints {
		v, ok := fr.vals[sv]
		sl, isS := v.(SliceVal)
		et := under(sv.Type()).(*types.Slice).Elem()
		if !ok || !isS {
			keys["E:"+typeKey(types.NewSlice(et))] = true
			continue
		}
		e.forLeaves(types.NewSlice(et), []pathElem{{field: -1}}, et, func(path []pathElem, suffix, leaf string, lt types.Type) {
			c := e.comp(types.NewSlice(et), path, suffix, leaf)
			if c.nidx != 1 {
				keys["E:"+typeKey(types.NewSlice(et))] = true
				return
			}
			fresh := e.sc.declare("looparr", arrSort(SI64, leaf))
			cur := e.heapGet(h, c)
			h[c.key] = e.sc.define("Hl_"+c.key, c.sort, sto(cur, sl.Arr, ite(reach, fresh, sel(cur, sl.Arr))))
			if !e.isFresh(sl.Arr) {
				e.dirty[c.key] = true
			}
		})
	}
	e.loopMods(li, keys)
	e.pendingWrites = append(e.pendingWrites, keys)
	// allocation base of the loop body: above every reference that exists at the loop head
	li.base = e.sc.declare("loopbase", SRef)
	lo := bvLit(0x90000000, 32)
	if e.lastLoopBase != "" {
		lo = app("bvadd", e.lastLoopBase, bvLit(0x10000, 32))
	}
	e.sc.assume(and(app("bvuge", li.base, lo), app("bvule", li.base, bvLit(0xF0000000, 32))))
	if e.allocBase != "" {
		// nested loop: above the enclosing iteration's allocations so far
		e.sc.assume(app("bvugt", li.base, app("bvadd", e.allocBase, bvLit(0x8000, 32))))
	}
	e.lastLoopBase = li.base
	// what is read at the loop head was allocated before this iteration
	saveAB := e.allocBase
	e.allocBase = li.base
	defer func() { e.allocBase = saveAB }()
	hv := map[ssa.Value]Val{}
	for _, phi := range phis {
		v := e.freshVal(phi.Type(), "loop_"+phi.Comment+"_"+phi.Name())
		if sv, ok := v.(SliceVal); ok && sliceOffZero(phi, map[ssa.Value]bool{}) {
			// every value this slice variable can take starts at offset 0 of its backing array
			v = SliceVal{sv.Arr, bvLit(0, 64), sv.Len}
		}
		e.assumeBelow(v, phi.Type(), li.base)
		hv[phi] = v
		fr.vals[phi] = v
		if nv, ok := v.(SliceVal); ok {
			if ov, ok := entry[phi].(SliceVal); ok && phiAppendOnly(phi, li) {
				e.assumePrefix(fr, li, keys, h, hreachOrReach(reach), under(phi.Type()).(*types.Slice).Elem(), nv, ov)
				if e.isFresh(ov.Arr) || ov.Arr == bvLit(0, 32) {
					// the variable starts as nil or as a slice allocated by this execution and changes only by
					// v = append(v, ...): its backing array is never an object of the pre-state
					e.sc.assume(or(eq(nv.Arr, bvLit(0, 32)), app("bvuge", nv.Arr, bvLit(0x80000000, 32))))
				}
			}
		}
	}
	// structural invariant of go/ssa's range-over-slice lowering: the index phi k
	// satisfies -1 <= k < len (k+1 is the number of completed iterations)
	for _, phi := range phis {
		if phi.Comment == "rangeindex" {
			for _, ins := range hdr.Instrs {
				if bo, ok := ins.(*ssa.BinOp); ok && bo.Op == token.LSS {
					if inc, ok := bo.X.(*ssa.BinOp); ok && inc.X == phi {
						if lenv, ok := fr.vals[bo.Y]; ok {
							k := e.scalar(hv[phi]).T
							l := e.scalar(lenv).T
							e.sc.assume(and(app("bvsge", k, bvLit(^uint64(0), 64)), app("bvslt", k, l), app("bvsge", l, bvLit(0, 64))))
							e.warnOnce("range-over-slice loops: the index bounds -1 <= k < len are assumed as a structural invariant of the SSA lowering")
						}
					}
				}
			}
		}
	}
	// ghost state "logged": whatever the earlier iterations logged stays logged
	{
		entryLogged := e.loggedTerm
		if entryLogged == "" {
			entryLogged = "false"
		}
		hl := e.sc.declare("logged_head", SBool)
		e.sc.assume(implies(entryLogged, hl))
		e.loggedTerm = e.sc.define("logged", SBool, ite(reach, hl, entryLogged))
	}
	{
		entryFailed := e.failedTerm
		if entryFailed == "" {
			entryFailed = "false"
		}
		hf := e.sc.declare("failed_head", SBool)
		e.sc.assume(implies(entryFailed, hf))
		e.failedTerm = e.sc.define("failed", SBool, ite(reach, hf, entryFailed))
	}
	hreach := e.sc.declare("r_loop", SBool)
	// the loop head is reached only if the loop was entered
	e.sc.assume(implies(hreach, reach))
	for _, c := range li.invs {
		t := e.evalGhostAt(fr, li, c, hv, h)
		_, cl := e.clauseOfPred(fr.fn, c.Call.StaticCallee().Name())
		e.sc.assumeTagged(fmt.Sprintf("L%d.%s", clLoop(cl), clLabel(cl)), implies(hreach, t))
	}
	li2 := liState{heap: h.clone(), phis: hv, reach: hreach, logged: e.loggedTerm, failed: e.failedTerm}
	e.loopStates[li] = &li2
	return hreach, h
}

type liState struct {
	failed string
	logged string
	heap  Heap
	phis  map[ssa.Value]Val
	reach string
	mods  map[string]bool
}

func (e *Engine) loopMods(li *loopInfo, keys map[string]bool) {
	if e.loopModKeys == nil {
		e.loopModKeys = map[*loopInfo]map[string]bool{}
	}
	e.loopModKeys[li] = keys
}

// loopOrdinal: the ordinal of the loop in its function as used by the contract clauses.
func (e *Engine) loopOrdinal(fr *frame, li *loopInfo) int {
	for _, c := range li.invs {
		if _, cl := e.clauseOfPred(fr.fn, c.Call.StaticCallee().Name()); cl != nil {
			return clLoop(cl)
		}
	}
	return -1
}

func clUsing(cl *Clause) []string {
	if cl == nil {
		return nil
	}
	return cl.Using
}

func firstPos(b *ssa.BasicBlock) (p token.Pos) {
	for _, ins := range b.Instrs {
		if ins.Pos().IsValid() {
			return ins.Pos()
		}
	}
	for _, s := range b.Succs {
		for _, ins := range s.Instrs {
			if ins.Pos().IsValid() {
				return ins.Pos()
			}
		}
	}
	return 0
}

func clLoop(cl *Clause) int {
	if cl == nil {
		return -1
	}
	return cl.Loop
}
func clLabel(cl *Clause) string {
	if cl == nil {
		return "?"
	}
	return cl.Label
}
func clExpr(cl *Clause) string {
	if cl == nil {
		return ""
	}
	return cl.Expr
}

// closeLoop: on a back edge, the invariants must hold again and the variant
// must have decreased.
func (e *Engine) closeLoop(fr *frame, li *loopInfo, tail *ssa.BasicBlock, succIdx int) {
	ts := fr.bs[tail]
	cond := ts.edge[succIdx]
	hdr := li.header
	// phi values along this edge
	back := map[ssa.Value]Val{}
	predIdx := -1
	count := 0
	for si, s := range tail.Succs {
		if s == hdr {
			if si == succIdx {
				break
			}
			count++
		}
	}
	occ := 0
	for j, p := range hdr.Preds {
		if p == tail {
			if occ == count {
				predIdx = j
				break
			}
			occ++
		}
	}
	for _, ins := range hdr.Instrs {
		if phi, ok := ins.(*ssa.Phi); ok {
			back[phi] = e.operand(fr, phi.Edges[predIdx])
		}
	}
	// components created inside the loop body that were not havocked at the header
	// (first touched in the body) are handled conservatively: they must be in the mod set
	ls := e.loopStates[li]
	for _, c := range li.invs {
		_, cl := e.clauseOfPred(fr.fn, c.Call.StaticCallee().Name())
		t := e.evalGhostAt(fr, li, c, back, ts.heap)
		e.oblige(&Obligation{
			Name:   fmt.Sprintf("%s.loop%d.invariant.%s.preserved", e.rootName(), clLoop(cl), clLabel(cl)),
			Kind:   "inv-preserved",
			Clause: clExpr(cl),
			Goal:   implies(cond, t),
			Pos:    e.posOf(firstPos(hdr)),
			Func:   e.rootName(),
			Using:  clUsing(cl),
		})
	}
	for _, c := range li.decs {
		_, cl := e.clauseOfPred(fr.fn, c.Call.StaticCallee().Name())
		m0 := e.evalGhostAt(fr, li, c, ls.phis, ls.heap)
		m1 := e.evalGhostAt(fr, li, c, back, ts.heap)
		e.oblige(&Obligation{
			Name:   fmt.Sprintf("%s.loop%d.decreases", e.rootName(), clLoop(cl)),
			Kind:   "decreases",
			Clause: clExpr(cl),
			Goal:   implies(cond, and(app("bvsge", m0, bvLit(0, 64)), app("bvslt", m1, m0))),
			Pos:    e.posOf(firstPos(hdr)),
			Func:   e.rootName(),
		})
	}
	if len(li.decs) == 0 && !e.pure {
		// range loops over slices terminate by construction (index bounded by len)
		isRange := false
		for _, ins := range hdr.Instrs {
			if phi, ok := ins.(*ssa.Phi); ok && phi.Comment == "rangeindex" {
				isRange = true
			}
		}
		if !isRange {
			e.warn("loop at %s has no decreases clause: termination not proved", e.posOf(firstPos(hdr)))
		}
	}
}

// assumeBelow: every reference directly held by v existed before the iteration.
func (e *Engine) assumeBelow(v Val, t types.Type, base string) {
	below := func(r string) {
		// older than the loop body's objects and than the objects allocated after the loop
		e.sc.assume(and(app("bvult", r, base), or(app("bvult", r, bvLit(uint64(0x80000000)+uint64(e.nalloc)+1, 32)), app("bvuge", r, bvLit(0x90000000, 32)))))
		e.sc.stampRef(r, e.sc.seq)
	}
	switch x := v.(type) {
	case Sc:
		if x.S == SRef && bitsOf(t) == 0 {
			below(x.T)
		}
	case StructVal:
		st := under(t).(*types.Struct)
		for i, f := range x.F {
			e.assumeBelow(f, st.Field(i).Type(), base)
		}
	case SliceVal:
		below(x.Arr)
	case IfaceVal:
		below(x.Ref)
	}
}

// sliceOffZero: every value that can flow into v is a slice that starts at offset
// 0 of its backing array (nil, make, append results, or a phi of such).
func hreachOrReach(r string) string { return r }

// assumePrefix: a slice variable that only grows by append in the loop, while nothing in the loop
// writes elements of slices of this type in place, still starts with the elements it had when
// the loop was entered (assumed: semantics of append).
func (e *Engine) assumePrefix(fr *frame, li *loopInfo, keys map[string]bool, h Heap, reach string, elemT types.Type, nv, ov SliceVal) {
	inPlace := false
	e.forLeaves(types.NewSlice(elemT), []pathElem{{field: -1}}, elemT, func(path []pathElem, suffix, leaf string, lt types.Type) {
		if e.inModSet(keys, e.comp(types.NewSlice(elemT), path, suffix, leaf).key) {
			inPlace = true
		}
	})
	if inPlace {
		return
	}
	e.sc.assume(implies(reach, app("bvsge", nv.Len, ov.Len)))
	tag := fmt.Sprintf("L%d.prefix", e.loopOrdinal(fr, li))
	e.forLeaves(types.NewSlice(elemT), []pathElem{{field: -1}}, elemT, func(path []pathElem, suffix, leaf string, lt types.Type) {
		c := e.comp(types.NewSlice(elemT), path, suffix, leaf)
		cur := e.heapGet(h, c)
		i := e.sc.freshName("pi")
		body := implies(and(reach, app("bvsle", bvLit(0, 64), i), app("bvslt", i, ov.Len)),
			eq(sel(sel(cur, nv.Arr), e.sc.addS(nv.Off, i)), sel(sel(cur, ov.Arr), e.sc.addS(ov.Off, i))))
		e.sc.addTagged(tag, fmt.Sprintf("(assert (forall ((%s %s)) (! %s :pattern (%s))))", i, SI64, body, sel(sel(cur, nv.Arr), e.sc.addS(nv.Off, i))))
	})
	e.warnOnce("append-only slice variables: inside a loop they keep the elements they had at loop entry (assumed from the semantics of append; checked syntactically: every assignment in the loop is v = append(v, ...), no element of that slice type is written in place)")
}

// phiAppendOnly: the loop-carried slice value phi changes in the loop only by v = append(v, ...).
func phiAppendOnly(phi *ssa.Phi, li *loopInfo) bool {
	seen := map[ssa.Value]bool{}
	var chain func(v ssa.Value) bool
	chain = func(v ssa.Value) bool {
		if v == phi {
			return true
		}
		if seen[v] {
			return true
		}
		seen[v] = true
		switch x := v.(type) {
		case *ssa.Phi:
			if !li.blocks[x.Block()] {
				return false
			}
			for _, ed := range x.Edges {
				if !chain(ed) {
					return false
				}
			}
			return true
		case *ssa.Call:
			if b, ok := x.Call.Value.(*ssa.Builtin); ok && b.Name() == "append" && len(x.Call.Args) > 0 && li.blocks[x.Block()] {
				return chain(x.Call.Args[0])
			}
		}
		return false
	}
	any := false
	for k, ed := range phi.Edges {
		if !li.blocks[phi.Block().Preds[k]] {
			continue // entry edge
		}
		any = true
		if !chain(ed) {
			return false
		}
	}
	return any
}

// appendOnlyInLoop: every store to the slice variable cell pv inside the loop (its blocks and
// the functions nested in it) is  pv = append(pv, ...).
func appendOnlyInLoop(pv ssa.Value, li *loopInfo) bool {
	al, ok := pv.(*ssa.Alloc)
	if !ok || al.Referrers() == nil {
		return false
	}
	for _, r := range *al.Referrers() {
		switch x := r.(type) {
		case *ssa.Store:
			if x.Addr != pv {
				return false
			}
			if !li.blocks[x.Block()] {
				continue
			}
			call, ok := x.Val.(*ssa.Call)
			if !ok {
				return false
			}
			b, ok := call.Call.Value.(*ssa.Builtin)
			if !ok || b.Name() != "append" || len(call.Call.Args) == 0 {
				return false
			}
			ld, ok := call.Call.Args[0].(*ssa.UnOp)
			if !ok || ld.Op != token.MUL || ld.X != pv {
				return false
			}
		case *ssa.UnOp, *ssa.DebugRef:
		case *ssa.MakeClosure:
			// closures may read the variable; one that can write it disqualifies
			fn := x.Fn.(*ssa.Function)
			for i, bnd := range x.Bindings {
				if bnd != pv {
					continue
				}
				fvr := fn.FreeVars[i]
				if fvr.Referrers() == nil {
					continue
				}
				for _, fr := range *fvr.Referrers() {
					switch fr.(type) {
					case *ssa.UnOp, *ssa.DebugRef:
					default:
						return false
					}
				}
			}
		default:
			return false
		}
	}
	return true
}

// cellAllocOnly: pv is a local slice variable cell and every value stored into it (here or in the
// closures that capture it) is nil, a make or an append result, or a copy of such a variable.
func cellAllocOnly(pv ssa.Value, seen map[ssa.Value]bool) bool {
	if seen[pv] {
		return true
	}
	seen[pv] = true
	al, ok := pv.(*ssa.Alloc)
	if !ok || al.Referrers() == nil {
		return false
	}
	var valOK func(v ssa.Value) bool
	valOK = func(v ssa.Value) bool {
		switch x := v.(type) {
		case *ssa.Const:
			return x.Value == nil
		case *ssa.MakeSlice:
			return true
		case *ssa.Call:
			if b, ok := x.Call.Value.(*ssa.Builtin); ok && b.Name() == "append" {
				return true
			}
		case *ssa.Phi:
			for _, ed := range x.Edges {
				if ed != v && !valOK(ed) {
					return false
				}
			}
			return true
		case *ssa.UnOp:
			if x.Op == token.MUL {
				return cellAllocOnly(x.X, seen)
			}
		}
		return false
	}
	var cellOK func(cell ssa.Value, refs []ssa.Instruction) bool
	cellOK = func(cell ssa.Value, refs []ssa.Instruction) bool {
		for _, r := range refs {
			switch x := r.(type) {
			case *ssa.Store:
				if x.Addr != cell || !valOK(x.Val) {
					return false
				}
			case *ssa.UnOp, *ssa.DebugRef:
			case *ssa.MakeClosure:
				fn := x.Fn.(*ssa.Function)
				for i, b := range x.Bindings {
					if b == cell {
						fvr := fn.FreeVars[i]
						if fvr.Referrers() != nil && !cellOK(fvr, *fvr.Referrers()) {
							return false
						}
					}
				}
			default:
				return false
			}
		}
		return true
	}
	return cellOK(al, *al.Referrers())
}

// cellOffZero: pv is a local variable cell (Alloc) of slice type and every store to it,
// in its function and in the closures capturing it, stores a value at offset 0.
func cellOffZero(pv ssa.Value) bool {
	al, ok := pv.(*ssa.Alloc)
	if !ok || al.Referrers() == nil {
		return false
	}
	var okCell func(cell ssa.Value, refs []ssa.Instruction) bool
	okCell = func(cell ssa.Value, refs []ssa.Instruction) bool {
		for _, r := range refs {
			switch x := r.(type) {
			case *ssa.Store:
				if x.Addr == cell {
					if !sliceOffZero(x.Val, map[ssa.Value]bool{}) {
						return false
					}
				} else {
					return false // the address itself is stored somewhere
				}
			case *ssa.UnOp, *ssa.DebugRef:
			case *ssa.MakeClosure:
				fn := x.Fn.(*ssa.Function)
				for i, b := range x.Bindings {
					if b == cell {
						fvr := fn.FreeVars[i]
						if fvr.Referrers() != nil && !okCell(fvr, *fvr.Referrers()) {
							return false
						}
					}
				}
			default:
				return false
			}
		}
		return true
	}
	return okCell(al, *al.Referrers())
}

func sliceOffZero(v ssa.Value, seen map[ssa.Value]bool) bool {
	if seen[v] {
		return true
	}
	seen[v] = true
	switch x := v.(type) {
	case *ssa.Const:
		return x.Value == nil
	case *ssa.MakeSlice:
		return true
	case *ssa.Call:
		if b, ok := x.Call.Value.(*ssa.Builtin); ok && b.Name() == "append" {
			return true
		}
	case *ssa.UnOp:
		// a load of a slice variable all of whose stores are at offset 0
		if x.Op == token.MUL {
			return cellOffZero(x.X)
		}
	case *ssa.Phi:
		for _, e := range x.Edges {
			if !sliceOffZero(e, seen) {
				return false
			}
		}
		return true
	case *ssa.Slice:
		if x.Low == nil {
			if _, ok := under(x.X.Type()).(*types.Pointer); ok {
				return true
			}
			return sliceOffZero(x.X, seen)
		}
	}
	return false
}
