package main

import (
	"bytes"
	"encoding/json"
	"flag"
	"fmt"
	"go/types"
	"os"
	"os/exec"
	"path/filepath"
	"sort"
	"strings"
)

// The self-check validates the translator, not the code: it asks the solver for
// input/output pairs of the *encoding* of a function under contract (inputs
// satisfying the precondition, outputs as the encoding predicts them), runs the real
// function on those inputs and compares. A disagreement is a bug in govc (or in an
// assumed library model) and is reported as a machinery error, never as a verdict.

type selfResult struct {
	Func     string
	Samples  int
	Agree    int
	Skipped  int
	Mismatch []string
}

func selfCheckFunction(w *World, c *Contract, dir string, k int) selfResult {
	sr := selfResult{Func: c.Func}
	fn := w.lookupFunc(c.Pkg, c.Func)
	if fn == nil || c.Broken != "" {
		return sr
	}
	e := newEngine(w)
	e.root, e.rootC = fn, c
	vc := &FuncVC{Contract: c, Fn: fn, Engine: e}
	var res execResult
	var args []Val
	ok := func() (ok bool) {
		defer func() {
			if r := recover(); r != nil {
				if _, isU := r.(unsupported); isU {
					ok = false
					return
				}
				panic(r)
			}
		}()
		for _, p := range fn.Params {
			v := e.freshVal(p.Type(), "in_"+p.Name())
			e.assumeInputRefs(v, p.Type())
			args = append(args, v)
			vc.Inputs = append(vc.Inputs, inputSym{p.Name(), p.Type(), v})
		}
		h0 := Heap{"#entry": "1"}
		if c.Options["with-init"] {
			e.runInit(fn.Pkg, h0)
		}
		e.oldHeap = h0.clone()
		for _, cl := range c.byKind("requires") {
			e.sc.assume(e.evalPred(w.Preds[c.Pkg+"."+cl.Pred], args, e.oldHeap, nil))
		}
		e.pure = true // no obligations
		xh := e.oldHeap.clone()
		delete(xh, "#entry")
		res = e.execFunction(fn, args, nil, "true", xh)
		e.pure = false
		return true
	}()
	if !ok || res.ret == nil {
		return sr
	}
	// output probes
	var resList []Val
	if tv, isT := res.ret.(TupleVal); isT {
		resList = tv
	} else {
		resList = []Val{res.ret}
	}
	type outProbe struct {
		idx   int
		kind  string // int, uint, bool, bytes, err, skip
		bits  int
		term  string
		elems []string
	}
	var outs []outProbe
	sig := fn.Signature
	for i, rv := range resList {
		t := sig.Results().At(i).Type()
		switch x := rv.(type) {
		case Sc:
			switch {
			case x.S == SBool:
				outs = append(outs, outProbe{idx: i, kind: "bool", term: x.T})
			case bitsOf(t) > 0:
				kd := "uint"
				if isSigned(t) {
					kd = "int"
				}
				outs = append(outs, outProbe{idx: i, kind: kd, bits: bitsOf(t), term: x.T})
			default:
				outs = append(outs, outProbe{idx: i, kind: "skip"})
			}
		case SliceVal:
			if st, isS := under(t).(*types.Slice); isS {
				if b, isB := under(st.Elem()).(*types.Basic); isB && b.Kind() == types.Uint8 {
					op := outProbe{idx: i, kind: "bytes", term: x.Len}
					for j := 0; j < 8; j++ {
						func() {
							defer func() { recover() }()
							ev := e.load(res.heap, e.elemPtr(x, st.Elem(), bvLit(uint64(j), 64)), st.Elem())
							op.elems = append(op.elems, e.scalar(ev).T)
						}()
					}
					outs = append(outs, op)
					continue
				}
			}
			outs = append(outs, outProbe{idx: i, kind: "skip"})
		case IfaceVal:
			if types.Identical(t, types.Universe.Lookup("error").Type()) {
				outs = append(outs, outProbe{idx: i, kind: "err", term: x.Tag})
			} else {
				outs = append(outs, outProbe{idx: i, kind: "skip"})
			}
		default:
			outs = append(outs, outProbe{idx: i, kind: "skip"})
		}
	}
	upto := e.sc.mark()
	cover := &Obligation{Name: c.Func + ".selfcheck", Cover: true, Goal: res.reach, Upto: upto}
	blocks := ""
	for s := 0; s < k; s++ {
		// model of inputs
		cov := *cover
		cov.Goal = and(res.reach, "true")
		m, out := modelValuesExtra(dir, vc, &cov, blocks, func() []probe {
			var ps []probe
			for _, o := range outs {
				switch o.kind {
				case "bool":
					ps = append(ps, probe{fmt.Sprintf("out%d", o.idx), o.term, SBool, "bool", 0})
				case "int", "uint":
					ps = append(ps, probe{fmt.Sprintf("out%d", o.idx), o.term, bvSort(o.bits), o.kind, o.bits})
				case "err":
					ps = append(ps, probe{fmt.Sprintf("out%d", o.idx), o.term, STag, "uint", 16})
				case "bytes":
					ps = append(ps, probe{fmt.Sprintf("out%d#len", o.idx), o.term, SI64, "int", 64})
					for j, el := range o.elems {
						ps = append(ps, probe{fmt.Sprintf("out%d[%d]", o.idx, j), el, SI8, "uint", 8})
					}
				}
			}
			return ps
		})
		_ = out
		if len(m) == 0 {
			break
		}
		sr.Samples++
		// expected outputs
		var expect []string
		for _, o := range outs {
			switch o.kind {
			case "bool":
				expect = append(expect, fmt.Sprintf("SELF r%d = %v", o.idx, m[fmt.Sprintf("out%d", o.idx)].Bool))
			case "int":
				expect = append(expect, fmt.Sprintf("SELF r%d = %d", o.idx, int64(m[fmt.Sprintf("out%d", o.idx)].U)))
			case "uint":
				expect = append(expect, fmt.Sprintf("SELF r%d = %d", o.idx, m[fmt.Sprintf("out%d", o.idx)].U))
			case "err":
				if m[fmt.Sprintf("out%d", o.idx)].U == 0 {
					expect = append(expect, fmt.Sprintf("SELF r%d = nil", o.idx))
				} else {
					expect = append(expect, fmt.Sprintf("SELF r%d = err", o.idx))
				}
			case "bytes":
				n := int64(m[fmt.Sprintf("out%d#len", o.idx)].U)
				s := fmt.Sprintf("SELF r%d = len %d", o.idx, n)
				for j := int64(0); j < n && j < 8; j++ {
					s += fmt.Sprintf(" %02x", m[fmt.Sprintf("out%d[%d]", o.idx, j)].U&0xff)
				}
				expect = append(expect, s)
			}
		}
		got, faithful, note := runSelf(w, vc, m, outs2kinds(len(resList), func(i int) string {
			for _, o := range outs {
				if o.idx == i {
					return o.kind
				}
			}
			return "skip"
		}), dir)
		if !faithful {
			sr.Skipped++
			if os.Getenv("GOVC_DEBUG") != "" {
				fmt.Printf("  skipped: %s\n", note)
			}
		} else {
			sort.Strings(expect)
			sort.Strings(got)
			if strings.Join(expect, "\n") == strings.Join(got, "\n") {
				sr.Agree++
			} else {
				sr.Mismatch = append(sr.Mismatch, fmt.Sprintf("inputs: %s\n  encoding predicts: %v\n  real code gives:   %v", note, expect, got))
			}
		}
		// block this input assignment (scalars only)
		var diffs []string
		for _, p := range vc.inputProbes() {
			if rv, ok := m[p.Path]; ok && rv.OK && (p.Kind == "int" || p.Kind == "uint") && !strings.Contains(p.Path, "#") {
				diffs = append(diffs, not(eq(p.Term, bvLit(rv.U, p.Bits))))
			}
			if rv, ok := m[p.Path]; ok && p.Kind == "str" && rv.IsLit {
				diffs = append(diffs, not(eq(p.Term, e.lits[rv.Lit])))
			}
		}
		if len(diffs) == 0 {
			break
		}
		blocks += "(assert " + or(diffs...) + ")\n"
	}
	return sr
}

func outs2kinds(n int, f func(int) string) []string {
	var r []string
	for i := 0; i < n; i++ {
		r = append(r, f(i))
	}
	return r
}

// runSelf executes the real function on the model's inputs and prints the results
// in the canonical SELF format.
func runSelf(w *World, vc *FuncVC, m map[string]rawVal, kinds []string, dir string) (lines []string, faithful bool, note string) {
	fn := vc.Fn
	pkg := fn.Pkg.Pkg
	var decl, argNames, notes []string
	faithful = true
	for _, in := range vc.Inputs {
		lit, ok := goLiteral(m, in.Name, in.Type, pkg, 0, &notes)
		if lit == "" {
			return nil, false, ""
		}
		if !ok {
			// unfaithful only matters if the part is not a map (maps are empty in the model only if nil...)
			faithful = false
		}
		qual := func(p *types.Package) string {
			if p == pkg {
				return ""
			}
			return p.Name()
		}
		nm := "in_" + sanitize(in.Name)
		decl = append(decl, fmt.Sprintf("\tvar %s %s = %s", nm, types.TypeString(in.Type, qual), lit))
		argNames = append(argNames, nm)
		note += in.Name + "=" + lit + " "
	}
	if !faithful {
		return nil, false, note + " [not reconstructable: " + strings.Join(notes, "; ") + "]"
	}
	sig := fn.Signature
	call := ""
	if sig.Recv() != nil {
		call = fmt.Sprintf("%s.%s(%s)", argNames[0], fn.Name(), strings.Join(argNames[1:], ", "))
	} else {
		call = fmt.Sprintf("%s(%s)", fn.Name(), strings.Join(argNames, ", "))
	}
	var src bytes.Buffer
	body := strings.Join(decl, "\n")
	fmt.Fprintf(&src, "//go:build verif\n\npackage %s\n\nimport (\n\t\"fmt\"\n\t\"testing\"\n", pkg.Name())
	for _, imp := range pkg.Imports() {
		if strings.Contains(body, imp.Name()+".") {
			fmt.Fprintf(&src, "\t%s %q\n", imp.Name(), imp.Path())
		}
	}
	fmt.Fprintf(&src, ")\n\nfunc TestVerifReplay(t *testing.T) {\n%s\n", body)
	for _, cl := range vc.Contract.byKind("requires") {
		fmt.Fprintf(&src, "\tif !%s(%s) { fmt.Println(\"SELF-OUTSIDE-PRE\"); return }\n", cl.Pred, strings.Join(argNames, ", "))
	}
	fmt.Fprintf(&src, "\tdefer func() { if r := recover(); r != nil { fmt.Printf(\"SELF-PANIC %%v\\n\", r) } }()\n")
	var rn []string
	for i := range kinds {
		rn = append(rn, fmt.Sprintf("r%d", i))
	}
	fmt.Fprintf(&src, "\t%s := %s\n", strings.Join(rn, ", "), call)
	for i, k := range kinds {
		switch k {
		case "bool", "int", "uint":
			fmt.Fprintf(&src, "\tfmt.Printf(\"SELF r%d = %%v\\n\", r%d)\n", i, i)
		case "err":
			fmt.Fprintf(&src, "\tif r%d == nil { fmt.Println(\"SELF r%d = nil\") } else { fmt.Println(\"SELF r%d = err\") }\n", i, i, i)
		case "bytes":
			fmt.Fprintf(&src, "\t{ s := fmt.Sprintf(\"SELF r%d = len %%d\", len(r%d)); for j := 0; j < len(r%d) && j < 8; j++ { s += fmt.Sprintf(\" %%02x\", r%d[j]) }; fmt.Println(s) }\n", i, i, i, i)
		default:
			fmt.Fprintf(&src, "\t_ = r%d\n", i)
		}
	}
	fmt.Fprintf(&src, "}\n")
	pkgDir := ""
	for f := range w.GenSrc {
		if strings.HasSuffix(filepath.Dir(f), strings.TrimPrefix(pkg.Path(), repoModule)) {
			pkgDir = filepath.Dir(f)
		}
	}
	scratch, _ := os.MkdirTemp("", "govc-self")
	defer os.RemoveAll(scratch)
	ov := map[string]map[string]string{"Replace": {}}
	for f, s := range w.GenSrc {
		if filepath.Dir(f) == pkgDir {
			tmp := filepath.Join(scratch, "zz_verif_gen.go")
			os.WriteFile(tmp, []byte(s), 0o644)
			ov["Replace"][f] = tmp
		}
	}
	tt := filepath.Join(scratch, "zz_verif_replay_test.go")
	os.WriteFile(tt, src.Bytes(), 0o644)
	ov["Replace"][filepath.Join(pkgDir, "zz_verif_replay_test.go")] = tt
	ovb, _ := json.Marshal(ov)
	ovFile := filepath.Join(scratch, "overlay.json")
	os.WriteFile(ovFile, ovb, 0o644)
	rel := "." + strings.TrimPrefix(pkg.Path(), repoModule)
	cmd := exec.Command("go", "test", "-mod=mod", "-tags", "verif", "-overlay", ovFile, "-vet=off", "-timeout", "60s", "-count=1", "-run", "^TestVerifReplay$", "-v", rel)
	cmd.Dir = w.RepoDir
	cmd.Env = append(os.Environ(), "GOFLAGS=-mod=mod", "GOPROXY=off", "GOSUMDB=off", "GOTOOLCHAIN=local")
	var buf bytes.Buffer
	cmd.Stdout = &buf
	cmd.Stderr = &buf
	cmd.Run()
	for _, l := range strings.Split(buf.String(), "\n") {
		if strings.HasPrefix(l, "SELF") {
			lines = append(lines, l)
		}
	}
	if len(lines) == 0 {
		return nil, false, note + " (test produced no output: " + trunc(buf.String(), 300) + ")"
	}
	for _, l := range lines {
		if strings.HasPrefix(l, "SELF-OUTSIDE-PRE") || strings.HasPrefix(l, "SELF-PANIC") {
			return nil, false, note + " [" + l + "]"
		}
	}
	return lines, true, note
}

func cmdSelfcheck(args []string) {
	fs := flag.NewFlagSet("selfcheck", flag.ExitOnError)
	repo := fs.String("repo", "/repo", "repository working tree")
	k := fs.Int("k", 4, "samples per function")
	fs.Parse(args)
	ff, _ := loadFindings("/verif/known_findings.json")
	w, err := loadWorldF(*repo, ff)
	if err != nil {
		fmt.Fprintln(os.Stderr, err)
		os.Exit(2)
	}
	dir, _ := os.MkdirTemp("", "govc")
	defer os.RemoveAll(dir)
	var ids []string
	for id := range w.Contracts {
		for _, pat := range fs.Args() {
			if strings.Contains(id, pat) {
				ids = append(ids, id)
				break
			}
		}
	}
	sort.Strings(ids)
	bad := 0
	for _, id := range ids {
		sr := selfCheckFunction(w, w.Contracts[id], dir, *k)
		fmt.Printf("SELFCHECK %-50s samples=%d agree=%d skipped=%d mismatches=%d\n", sr.Func, sr.Samples, sr.Agree, sr.Skipped, len(sr.Mismatch))
		for _, m := range sr.Mismatch {
			fmt.Println("  MISMATCH", m)
			bad++
		}
	}
	if bad > 0 {
		os.Exit(2)
	}
}
