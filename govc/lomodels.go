package main

import (
	"fmt"
	"go/types"

	"golang.org/x/tools/go/ssa"
)

// loModel gives the collection helpers of github.com/samber/lo that contain loops
// their (assumed) functional contracts. The callback is evaluated symbolically,
// under a quantified index where needed; it must be effect free.
func (e *Engine) loModel(fr *frame, ins ssa.Instruction, name string, fn *ssa.Function, args []Val, resT types.Type, reach string, heap Heap) (Val, string, bool) {
	use := func() { e.assumedExt[name]++ }
	elemAt := func(s SliceVal, et types.Type, i string) Val {
		return e.load(heap, e.elemPtr(s, et, i), et)
	}
	callCB := func(fv FuncVal, cbArgs []Val) Val {
		savePure := e.pure
		saveGuard := e.guard
		e.pure = true
		e.guard = "true"
		res := e.execFunction(fv.Fn, cbArgs, fv.Bind, "true", heap.clone())
		e.pure = savePure
		e.guard = saveGuard
		return res.ret
	}
	switch name {
	case "sort.SliceStable", "sort.Slice":
		// sort.Slice(x any, less func(i, j int) bool): afterwards the elements are a permutation of
		// the elements before (P, with inverse Q) and no later element is less than an earlier one;
		// SliceStable additionally keeps the order of elements neither of which is less than the other.
		// Assumes, as the library documentation requires, that less is a strict weak ordering on the
		// elements and reads nothing but them.
		mi, ok := cc0(ins).(*ssa.MakeInterface)
		if !ok {
			return nil, reach, false
		}
		sv, ok := e.operand(fr, mi.X).(SliceVal)
		fv, ok2 := args[1].(FuncVal)
		if !ok || !ok2 {
			return nil, reach, false
		}
		use()
		et := under(mi.X.Type()).(*types.Slice).Elem()
		n := sv.Len
		P := e.sc.declare("sortP", arrSort(SI64, SI64))
		e.lastSortP = P
		Q := e.sc.declare("sortQ", arrSort(SI64, SI64))
		i := e.sc.freshName("si")
		inr := func(x string) string { return and(app("bvsle", bvLit(0, 64), x), app("bvslt", x, n)) }
		e.sc.addTagged("perm.sort", fmt.Sprintf("(assert (forall ((%s %s)) %s))", i, SI64, implies(inr(i), and(inr(sel(P, i)), eq(sel(Q, sel(P, i)), i), inr(sel(Q, i)), eq(sel(P, sel(Q, i)), i)))))
		e.forLeaves(types.NewSlice(et), []pathElem{{field: -1}}, et, func(path []pathElem, suffix, leaf string, lt types.Type) {
			c := e.comp(types.NewSlice(et), path, suffix, leaf)
			cur := e.heapGet(heap, c)
			old := sel(cur, sv.Arr)
			nw := e.sc.declare("sorted_"+c.key, arrSort(SI64, leaf))
			// inside the sorted range (indices written as off+r, the way code and specifications
			// index the slice): new[off+r] == old[off+P[r]]; outside: unchanged
			r := e.sc.freshName("sr")
			at := e.sc.addS(sv.Off, r)
			// (on paths that do not reach the call nw is the old content, element by element)
			perm := sel(old, app("bvadd", sv.Off, sel(P, r)))
			if e.guard != "true" {
				perm = ite(e.guard, perm, sel(old, at))
			}
			e.sc.addTagged("elems.sort", fmt.Sprintf("(assert (forall ((%s %s)) (! %s :pattern (%s))))", r, SI64,
				implies(inr(r), eq(sel(nw, at), perm)), sel(nw, at)))
			// the same fact for an arbitrary index (specifications that index the whole slice)
			pj := e.sc.freshName("sp")
			inRange := and(app("bvsle", sv.Off, pj), app("bvslt", pj, app("bvadd", sv.Off, n)))
			permJ := sel(old, app("bvadd", sv.Off, sel(P, app("bvsub", pj, sv.Off))))
			if e.guard != "true" {
				permJ = ite(e.guard, permJ, sel(old, pj))
			}
			e.sc.addTagged("elems.sort", fmt.Sprintf("(assert (forall ((%s %s)) (! %s :pattern (%s))))", pj, SI64, implies(inRange, eq(sel(nw, pj), permJ)), sel(nw, pj)))
			j := e.sc.freshName("sj")
			out := or(app("bvslt", j, sv.Off), app("bvsge", j, app("bvadd", sv.Off, n)))
			e.sc.addTagged("frame.sort", fmt.Sprintf("(assert (forall ((%s %s)) (! %s :pattern (%s))))", j, SI64, implies(out, eq(sel(nw, j), sel(old, j))), sel(nw, j)))
			heap[c.key] = e.sc.define("H_"+c.key, c.sort, sto(cur, sv.Arr, nw))
			if !e.isFresh(sv.Arr) {
				e.dirty[c.key] = true
			}
		})
		// order facts, in the state after the sort
		a := e.sc.freshName("sa")
		b := e.sc.freshName("sb")
		e.sc.binders = append(e.sc.binders, binder{a, SI64}, binder{b, SI64})
		lessBA := e.scalar(callCB(fv, []Val{Sc{b, SI64}, Sc{a, SI64}})).T
		e.sc.binders = e.sc.binders[:len(e.sc.binders)-2]
		e.lastSort = &sortRec{fv: fv, heap: heap.clone(), n: n, reach: reach}
		rng := and(app("bvsle", bvLit(0, 64), a), app("bvslt", a, b), app("bvslt", b, n))
		e.sc.addTagged("order.sort", fmt.Sprintf("(assert (forall ((%s %s) (%s %s)) %s))", a, SI64, b, SI64, implies(and(reach, rng), not(lessBA))))
		// (the stability of SliceStable is not modelled: nothing here relies on it)
		return nil, reach, true
	case "github.com/samber/lo.ToPtr":
		// ToPtr(x) = &x : a fresh cell holding x
		use()
		pt, ok := resT.(*types.Pointer)
		if !ok {
			if tup, isT := resT.(*types.Tuple); isT && tup.Len() == 1 {
				pt, ok = tup.At(0).Type().(*types.Pointer)
			}
		}
		if !ok {
			return nil, reach, false
		}
		ref := e.alloc()
		pv := PtrVal{Base: ref, Root: pt.Elem()}
		saveG := e.guard
		e.guard = "true"
		e.store(heap, pv, pt.Elem(), args[0])
		e.guard = saveG
		return pv, reach, true
	case "github.com/samber/lo.Map":
		// Map(collection []T, iteratee func(T, int) R) []R : len equal, result[i] == f(c[i], i)
		use()
		s := args[0].(SliceVal)
		fv, ok := args[1].(FuncVal)
		if !ok {
			return nil, reach, false
		}
		et := under(fn.Signature.Params().At(0).Type()).(*types.Slice).Elem()
		rt := under(fn.Signature.Results().At(0).Type()).(*types.Slice).Elem()
		ref := e.alloc()
		res := SliceVal{ref, bvLit(0, 64), s.Len}
		var arrs []string
		e.forLeaves(types.NewSlice(rt), []pathElem{{field: -1}}, rt, func(path []pathElem, suffix, leaf string, lt types.Type) {
			c := e.comp(types.NewSlice(rt), path, suffix, leaf)
			arrs = append(arrs, e.mapResultArr(c, ref, heap))
		})
		k := e.sc.freshName("mk")
		e.sc.binders = append(e.sc.binders, binder{k, SI64})
		func() {
			defer func() { e.sc.binders = e.sc.binders[:len(e.sc.binders)-1] }()
			v := callCB(fv, []Val{elemAt(s, et, k), Sc{k, SI64}})
			// result[k] == v, for each leaf
			leaves := e.leavesOf(v, rt)
			rng := and(app("bvsle", bvLit(0, 64), k), app("bvslt", k, s.Len))
			for j, arr := range arrs {
				e.sc.add(fmt.Sprintf("(assert (forall ((%s %s)) %s))", k, SI64, implies(rng, eq(sel(arr, k), leaves[j]))))
			}
		}()
		return res, reach, true
	case "github.com/samber/lo.Find":
		// Find(collection []T, predicate func(T) bool) (T, bool): the first element satisfying the predicate
		use()
		s := args[0].(SliceVal)
		fv, ok := args[1].(FuncVal)
		if !ok {
			return nil, reach, false
		}
		et := under(fn.Signature.Params().At(0).Type()).(*types.Slice).Elem()
		found := e.sc.declare("find_ok", SBool)
		idx := e.sc.declare("find_idx", SI64)
		elem := elemAt(s, et, idx)
		pAt := e.scalar(callCB(fv, []Val{elem})).T
		e.sc.assume(implies(found, and(app("bvsle", bvLit(0, 64), idx), app("bvslt", idx, s.Len), pAt)))
		// nothing before idx (or nothing at all) satisfies the predicate
		k := e.sc.freshName("fk")
		e.sc.binders = append(e.sc.binders, binder{k, SI64})
		pk := e.scalar(callCB(fv, []Val{elemAt(s, et, k)})).T
		e.sc.binders = e.sc.binders[:len(e.sc.binders)-1]
		upper := ite(found, idx, s.Len)
		e.sc.add(fmt.Sprintf("(assert (forall ((%s %s)) %s))", k, SI64, implies(and(app("bvsle", bvLit(0, 64), k), app("bvslt", k, upper)), not(pk))))
		res := e.iteVal(found, elem, e.zeroVal(et))
		return TupleVal{res, Sc{found, SBool}}, reach, true
	case "github.com/samber/lo.Contains":
		// Contains(collection []T, element T) bool
		use()
		s := args[0].(SliceVal)
		et := under(fn.Signature.Params().At(0).Type()).(*types.Slice).Elem()
		if n, ok := e.smallConst(s.Len); ok && n <= 16 {
			var ds []string
			for i := 0; i < n; i++ {
				ds = append(ds, e.eqVal(elemAt(s, et, bvLit(uint64(i), 64)), args[1], et))
			}
			return Sc{e.sc.define("contains", SBool, or(ds...)), SBool}, reach, true
		}
		k := e.sc.freshName("ck")
		e.sc.binders = append(e.sc.binders, binder{k, SI64})
		body := e.eqVal(elemAt(s, et, k), args[1], et)
		e.sc.binders = e.sc.binders[:len(e.sc.binders)-1]
		t := fmt.Sprintf("(exists ((%s %s)) %s)", k, SI64, and(app("bvsle", bvLit(0, 64), k), app("bvslt", k, s.Len), body))
		return Sc{e.sc.define("contains", SBool, t), SBool}, reach, true
	}
	return nil, reach, false
}

func cc0(ins ssa.Instruction) ssa.Value {
	if ci, ok := ins.(ssa.CallInstruction); ok && len(ci.Common().Args) > 0 {
		return ci.Common().Args[0]
	}
	return nil
}

// mapResultArr declares the fresh backing array of a lo result slice in component c.
func (e *Engine) mapResultArr(c *component, ref string, heap Heap) string {
	arr := e.sc.declare("loarr_"+c.key, arrSort(SI64, c.leaf))
	heap[c.key] = e.sc.define("H_"+c.key, c.sort, sto(e.heapGet(heap, c), ref, arr))
	return arr
}


// sortRec remembers the most recent sort call for the ghost vcSortFact.
type sortRec struct {
	fv    FuncVal
	heap  Heap
	n     string
	reach string
}

// sortFact: the instance, for positions a and b of the sorted range, of the ordering fact of the
// sort model: if the call was reached and 0 <= a < b < n then the comparator does not put b before a.
func (e *Engine) sortFact(a, b string) string {
	r := e.lastSort
	if r == nil {
		return "true"
	}
	savePure, saveGuard := e.pure, e.guard
	e.pure, e.guard = true, "true"
	res := e.execFunction(r.fv.Fn, []Val{Sc{b, SI64}, Sc{a, SI64}}, r.fv.Bind, "true", r.heap.clone())
	e.pure, e.guard = savePure, saveGuard
	rng := and(app("bvsle", bvLit(0, 64), a), app("bvslt", a, b), app("bvslt", b, r.n))
	return implies(and(r.reach, rng), not(e.scalar(res.ret).T))
}
