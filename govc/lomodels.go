package main

import (
	"fmt"
	"go/types"

	"golang.org/x/tools/go/ssa"
)

// loModel gives the collection helpers of github.com/samber/lo that contain loops
// their (assumed) functional contracts. The callback is evaluated symbolically,
// under a quantified index where needed; it must be effect free.
func (e *Engine) loModel(fr *frame, ins ssa.Instruction, name string, fn *ssa.Function, args []Val, resT types.Type, reach string, heap Heap) (Val, string, bool) {
	use := func() { e.assumedExt[name]++ }
	elemAt := func(s SliceVal, et types.Type, i string) Val {
		return e.load(heap, e.elemPtr(s, et, i), et)
	}
	callCB := func(fv FuncVal, cbArgs []Val) Val {
		savePure := e.pure
		saveGuard := e.guard
		e.pure = true
		e.guard = "true"
		res := e.execFunction(fv.Fn, cbArgs, fv.Bind, "true", heap.clone())
		e.pure = savePure
		e.guard = saveGuard
		return res.ret
	}
	switch name {
	case "github.com/samber/lo.Map":
		// Map(collection []T, iteratee func(T, int) R) []R : len equal, result[i] == f(c[i], i)
		use()
		s := args[0].(SliceVal)
		fv, ok := args[1].(FuncVal)
		if !ok {
			return nil, reach, false
		}
		et := under(fn.Signature.Params().At(0).Type()).(*types.Slice).Elem()
		rt := under(fn.Signature.Results().At(0).Type()).(*types.Slice).Elem()
		ref := e.alloc()
		res := SliceVal{ref, bvLit(0, 64), s.Len}
		var arrs []string
		e.forLeaves(types.NewSlice(rt), []pathElem{{field: -1}}, rt, func(path []pathElem, suffix, leaf string, lt types.Type) {
			c := e.comp(types.NewSlice(rt), path, suffix, leaf)
			arrs = append(arrs, e.mapResultArr(c, ref, heap))
		})
		k := e.sc.freshName("mk")
		e.sc.binders = append(e.sc.binders, binder{k, SI64})
		func() {
			defer func() { e.sc.binders = e.sc.binders[:len(e.sc.binders)-1] }()
			v := callCB(fv, []Val{elemAt(s, et, k), Sc{k, SI64}})
			// result[k] == v, for each leaf
			leaves := e.leavesOf(v, rt)
			rng := and(app("bvsle", bvLit(0, 64), k), app("bvslt", k, s.Len))
			for j, arr := range arrs {
				e.sc.add(fmt.Sprintf("(assert (forall ((%s %s)) %s))", k, SI64, implies(rng, eq(sel(arr, k), leaves[j]))))
			}
		}()
		return res, reach, true
	case "github.com/samber/lo.Find":
		// Find(collection []T, predicate func(T) bool) (T, bool): the first element satisfying the predicate
		use()
		s := args[0].(SliceVal)
		fv, ok := args[1].(FuncVal)
		if !ok {
			return nil, reach, false
		}
		et := under(fn.Signature.Params().At(0).Type()).(*types.Slice).Elem()
		found := e.sc.declare("find_ok", SBool)
		idx := e.sc.declare("find_idx", SI64)
		elem := elemAt(s, et, idx)
		pAt := e.scalar(callCB(fv, []Val{elem})).T
		e.sc.assume(implies(found, and(app("bvsle", bvLit(0, 64), idx), app("bvslt", idx, s.Len), pAt)))
		// nothing before idx (or nothing at all) satisfies the predicate
		k := e.sc.freshName("fk")
		e.sc.binders = append(e.sc.binders, binder{k, SI64})
		pk := e.scalar(callCB(fv, []Val{elemAt(s, et, k)})).T
		e.sc.binders = e.sc.binders[:len(e.sc.binders)-1]
		upper := ite(found, idx, s.Len)
		e.sc.add(fmt.Sprintf("(assert (forall ((%s %s)) %s))", k, SI64, implies(and(app("bvsle", bvLit(0, 64), k), app("bvslt", k, upper)), not(pk))))
		res := e.iteVal(found, elem, e.zeroVal(et))
		return TupleVal{res, Sc{found, SBool}}, reach, true
	case "github.com/samber/lo.Contains":
		// Contains(collection []T, element T) bool
		use()
		s := args[0].(SliceVal)
		et := under(fn.Signature.Params().At(0).Type()).(*types.Slice).Elem()
		if n, ok := e.smallConst(s.Len); ok && n <= 16 {
			var ds []string
			for i := 0; i < n; i++ {
				ds = append(ds, e.eqVal(elemAt(s, et, bvLit(uint64(i), 64)), args[1], et))
			}
			return Sc{e.sc.define("contains", SBool, or(ds...)), SBool}, reach, true
		}
		k := e.sc.freshName("ck")
		e.sc.binders = append(e.sc.binders, binder{k, SI64})
		body := e.eqVal(elemAt(s, et, k), args[1], et)
		e.sc.binders = e.sc.binders[:len(e.sc.binders)-1]
		t := fmt.Sprintf("(exists ((%s %s)) %s)", k, SI64, and(app("bvsle", bvLit(0, 64), k), app("bvslt", k, s.Len), body))
		return Sc{e.sc.define("contains", SBool, t), SBool}, reach, true
	}
	return nil, reach, false
}

// mapResultArr declares the fresh backing array of a lo result slice in component c.
func (e *Engine) mapResultArr(c *component, ref string, heap Heap) string {
	arr := e.sc.declare("loarr_"+c.key, arrSort(SI64, c.leaf))
	heap[c.key] = e.sc.define("H_"+c.key, c.sort, sto(e.heapGet(heap, c), ref, arr))
	return arr
}
