package main

import (
	"flag"
	"fmt"
	"os"
	"sort"
	"strings"
	"sync"
	"time"
)

func main() {
	if len(os.Args) < 2 {
		fmt.Fprintln(os.Stderr, "usage: govc vc [-repo dir] [-t sec] [-keep dir] <contract-id-substring>... | govc check <property> quick|thorough")
		os.Exit(2)
	}
	switch os.Args[1] {
	case "vc":
		cmdVC(os.Args[2:])
	case "check":
		cmdCheck(os.Args[2:])
	case "ssa":
		ff, _ := loadFindings("/verif/known_findings.json")
		w, err := loadWorldF("/repo", ff)
		if err != nil {
			fmt.Println(err)
			os.Exit(2)
		}
		for id, c := range w.Contracts {
			if strings.Contains(id, os.Args[2]) {
				if fn := w.lookupFunc(c.Pkg, c.Func); fn != nil {
					fn.WriteTo(os.Stdout)
				}
			}
		}
	case "selfcheck":
		cmdSelfcheck(os.Args[2:])
	case "replay":
		cmdReplay(os.Args[2:])
	case "list":
		cmdList(os.Args[2:])
	default:
		fmt.Fprintln(os.Stderr, "unknown command", os.Args[1])
		os.Exit(2)
	}
}

func cmdList(args []string) {
	fs := flag.NewFlagSet("list", flag.ExitOnError)
	repo := fs.String("repo", "/repo", "repository working tree")
	fs.Parse(args)
	w, err := loadWorld(*repo)
	if err != nil {
		fmt.Fprintln(os.Stderr, "load:", err)
		os.Exit(2)
	}
	var ids []string
	for id := range w.Contracts {
		ids = append(ids, id)
	}
	sort.Strings(ids)
	for _, id := range ids {
		fmt.Println(id, len(w.Contracts[id].Clauses), "clauses")
	}
}

type oblResult struct {
	VC *FuncVC
	O  *Obligation
	R  SolveResult
	OK bool
}

// solveAll discharges the obligations of the given VCs in parallel.
func solveAll(vcs []*FuncVC, dir string, timeoutS int, thorough bool, filter func(*Obligation) bool) []oblResult {
	var jobs []oblResult
	for _, vc := range vcs {
		if vc.Err != nil {
			continue
		}
		for _, o := range vc.Obls {
			if filter != nil && !filter(o) {
				continue
			}
			jobs = append(jobs, oblResult{VC: vc, O: o})
		}
	}
	sem := make(chan struct{}, 8)
	var wg sync.WaitGroup
	for i := range jobs {
		wg.Add(1)
		go func(j *oblResult) {
			defer wg.Done()
			sem <- struct{}{}
			defer func() { <-sem }()
			text := queryText(j.VC.Engine.sc, j.O, false)
			j.R = solve(dir, j.O.Name, text, timeoutS, thorough)
			if j.O.Cover {
				j.OK = j.R.Status == "sat"
			} else {
				j.OK = j.R.Status == "unsat"
			}
		}(&jobs[i])
	}
	wg.Wait()
	return jobs
}

func cmdVC(args []string) {
	fs := flag.NewFlagSet("vc", flag.ExitOnError)
	repo := fs.String("repo", "/repo", "repository working tree")
	kf := fs.String("kf", "/verif/known_findings.json", "known findings file")
	timeout := fs.Int("t", 10, "per-obligation solver timeout (s)")
	keep := fs.String("keep", "", "directory to keep SMT files in")
	thorough := fs.Bool("thorough", false, "run all solvers")
	verbose := fs.Bool("v", false, "verbose")
	fs.Parse(args)
	t0 := time.Now()
	ff, err := loadFindings(*kf)
	if err != nil {
		fmt.Fprintln(os.Stderr, "findings:", err)
		os.Exit(2)
	}
	w, err := loadWorldF(*repo, ff)
	if err != nil {
		fmt.Fprintln(os.Stderr, "load:", err)
		os.Exit(2)
	}
	fmt.Fprintf(os.Stderr, "loaded in %.1fs, %d contracts\n", time.Since(t0).Seconds(), len(w.Contracts))
	dir := *keep
	if dir == "" {
		dir, _ = os.MkdirTemp("", "govc")
		defer os.RemoveAll(dir)
	} else {
		os.MkdirAll(dir, 0o755)
	}
	var ids []string
	for id := range w.Contracts {
		for _, pat := range fs.Args() {
			if strings.Contains(id, pat) {
				ids = append(ids, id)
				break
			}
		}
	}
	sort.Strings(ids)
	var vcs []*FuncVC
	for _, id := range ids {
		t1 := time.Now()
		vc := buildVC(w, w.Contracts[id])
		if vc.Err != nil {
			fmt.Printf("TOOL-LIMIT %s: %v\n", id, vc.Err)
			continue
		}
		fmt.Fprintf(os.Stderr, "%s: %d obligations, VC %d bytes, built in %.2fs\n", id, len(vc.Obls), vc.Engine.sc.bytes, time.Since(t1).Seconds())
		if *verbose {
			for k, n := range vc.Engine.abstracted {
				fmt.Fprintf(os.Stderr, "   abstracted: %s x%d\n", k, n)
			}
			for k, n := range vc.Engine.assumedExt {
				fmt.Fprintf(os.Stderr, "   assumed model: %s x%d\n", k, n)
			}
			for k, n := range vc.Engine.inlined {
				fmt.Fprintf(os.Stderr, "   inlined: %s x%d\n", k, n)
			}
			for _, wmsg := range vc.Engine.warnings {
				fmt.Fprintf(os.Stderr, "   warning: %s\n", wmsg)
			}
		}
		vcs = append(vcs, vc)
	}
	res := solveAll(vcs, dir, *timeout, *thorough, nil)
	bad := 0
	for _, r := range res {
		st := "ok  "
		if !r.OK {
			st = "FAIL"
			bad++
		}
		fmt.Printf("%s %-70s %-8s %-10s %5dms %7dB  %s\n", st, r.O.Name, r.R.Status, r.R.Solver, r.R.Ms, r.R.VCBytes, r.O.Pos)
		if !r.OK && *verbose {
			fmt.Printf("       clause: %s\n", r.O.Clause)
		}
		if !r.OK && r.R.Status == "sat" && !r.O.Cover {
			m, _ := modelValues(dir, r.VC, r.O, r.R.Solver, *timeout)
			for _, l := range renderModel(m) {
				fmt.Printf("         %s\n", l)
			}
		}
	}
	fmt.Printf("%d obligations, %d failed, %.1fs\n", len(res), bad, time.Since(t0).Seconds())
}
