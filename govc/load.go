package main

import (
	"bytes"
	"encoding/json"
	"fmt"
	"go/ast"
	"go/parser"
	"go/scanner"
	"go/token"
	"go/types"
	"os"
	"path/filepath"
	"regexp"
	"sort"
	"strings"
	"sync"

	"golang.org/x/tools/go/packages"
	"golang.org/x/tools/go/ssa"
)

const repoModule = "github.com/HobbyOSs/gosk"

// Clause is one contract clause.
type Clause struct {
	Kind   string // requires | ensures | invariant | decreases | assigns | reads | option
	Label  string
	Loop   int
	Expr   string
	Line   int
	File   string
	Callee string // for calls clauses: full name of the callee
	Pred   string // name of the synthesized predicate function
	// for loop clauses: the locals passed to the predicate, in order
	Locals []string
	Using  []string // "using(a, b)": the labelled hypotheses the proof of this clause needs (nil: all)
}

// Contract is the set of clauses attached to one function.
type Contract struct {
	Pkg     string // package path
	Func    string // "Name" or "(*T).Name" or "(T).Name"
	Clauses []*Clause
	Options map[string]bool
	Broken  string // non-empty: the contract does not fit the current code
	Props   []string
	File    string
	Line    int
}

func (c *Contract) byKind(k string) []*Clause {
	var r []*Clause
	for _, cl := range c.Clauses {
		if cl.Kind == k {
			r = append(r, cl)
		}
	}
	return r
}

func (c *Contract) id() string { return c.Pkg + "." + c.Func }

var clauseRe = regexp.MustCompile(`^(requires|ensures|exits|calls|relates|final|loop|assigns|reads|option|func|lemma|props)\b(\[[A-Za-z0-9_.@+\-]+\])?\s*(.*)$`)

// parseContracts reads the //@ clause blocks of a contracts file.
func parseContracts(pkgPath, file string, src []byte) ([]*Contract, error) {
	var res []*Contract
	var cur *Contract
	var last *Clause
	for i, raw := range strings.Split(string(src), "\n") {
		line := strings.TrimSpace(raw)
		if !strings.HasPrefix(line, "//@") {
			last = nil
			continue
		}
		body := strings.TrimSpace(line[3:])
		if body == "" {
			continue
		}
		if strings.HasPrefix(body, "|") {
			if last == nil {
				return nil, fmt.Errorf("%s:%d: continuation without clause", file, i+1)
			}
			last.Expr += " " + strings.TrimSpace(body[1:])
			continue
		}
		m := clauseRe.FindStringSubmatch(body)
		if m == nil {
			return nil, fmt.Errorf("%s:%d: unrecognised clause %q", file, i+1, body)
		}
		kw, label, rest := m[1], strings.Trim(m[2], "[]"), strings.TrimSpace(m[3])
		if kw == "func" {
			cur = &Contract{Pkg: pkgPath, Func: rest, Options: map[string]bool{}, File: file, Line: i + 1}
			res = append(res, cur)
			last = nil
			continue
		}
		if cur == nil {
			return nil, fmt.Errorf("%s:%d: clause before any '//@ func'", file, i+1)
		}
		cl := &Clause{Kind: kw, Label: label, Expr: rest, Line: i + 1, File: file, Loop: -1}
		switch kw {
		case "loop":
			var k int
			var sub string
			parts := strings.Fields(rest)
			if len(parts) < 3 {
				return nil, fmt.Errorf("%s:%d: malformed loop clause", file, i+1)
			}
			if _, err := fmt.Sscanf(parts[0], "%d", &k); err != nil {
				return nil, fmt.Errorf("%s:%d: loop ordinal: %v", file, i+1, err)
			}
			sub = parts[1]
			if m2 := regexp.MustCompile(`^(invariant|decreases)(\[[A-Za-z0-9_.@+\-]+\])?$`).FindStringSubmatch(sub); m2 != nil {
				cl.Kind = m2[1]
				cl.Label = strings.Trim(m2[2], "[]")
			} else {
				return nil, fmt.Errorf("%s:%d: loop clause must be invariant or decreases", file, i+1)
			}
			cl.Loop = k
			idx := strings.Index(rest, sub)
			cl.Expr = strings.TrimSpace(rest[idx+len(sub):])
		case "option":
			for _, o := range strings.Fields(rest) {
				cur.Options[o] = true
			}
		case "props":
			cur.Props = append(cur.Props, strings.Fields(rest)...)
		}
		if strings.HasPrefix(cl.Expr, "using(") {
			if j := strings.Index(cl.Expr, ")"); j > 0 {
				cl.Using = []string{}
				for _, u := range strings.Split(cl.Expr[len("using("):j], ",") {
					if u = strings.TrimSpace(u); u != "" {
						cl.Using = append(cl.Using, u)
					}
				}
				cl.Expr = strings.TrimSpace(cl.Expr[j+1:])
			}
		}
		cur.Clauses = append(cur.Clauses, cl)
		last = cl
	}
	return res, nil
}

// rewriteImplies turns  A ==> B  (lowest precedence, right associative) into
// (!(A) || (B)), respecting parentheses, brackets, braces and string literals.
func rewriteImplies(s string) string {
	depth := 0
	inStr := byte(0)
	for i := 0; i < len(s); i++ {
		c := s[i]
		if inStr != 0 {
			if c == '\\' {
				i++
			} else if c == inStr {
				inStr = 0
			}
			continue
		}
		switch c {
		case '"', '\'', '`':
			inStr = c
		case '(', '[', '{':
			depth++
		case ')', ']', '}':
			depth--
		case '=':
			if depth == 0 && strings.HasPrefix(s[i:], "==>") {
				a := strings.TrimSpace(s[:i])
				b := strings.TrimSpace(s[i+3:])
				return "(!(" + rewriteInner(a) + ") || (" + rewriteImplies(b) + "))"
			}
		}
	}
	return rewriteInner(s)
}

// topAntecedent returns A for a clause of the form  A ==> B.
func topAntecedent(s string) (string, bool) {
	depth := 0
	inStr := byte(0)
	for i := 0; i < len(s); i++ {
		c := s[i]
		if inStr != 0 {
			if c == '\\' {
				i++
			} else if c == inStr {
				inStr = 0
			}
			continue
		}
		switch c {
		case '"', '\'', '`':
			inStr = c
		case '(', '[', '{':
			depth++
		case ')', ']', '}':
			depth--
		case '=':
			if depth == 0 && strings.HasPrefix(s[i:], "==>") {
				return strings.TrimSpace(s[:i]), true
			}
		}
	}
	return "", false
}

// rewriteInner applies rewriteImplies inside every parenthesised/braced group.
func rewriteInner(s string) string {
	var out strings.Builder
	inStr := byte(0)
	for i := 0; i < len(s); i++ {
		c := s[i]
		if inStr != 0 {
			out.WriteByte(c)
			if c == '\\' && i+1 < len(s) {
				i++
				out.WriteByte(s[i])
			} else if c == inStr {
				inStr = 0
			}
			continue
		}
		switch c {
		case '"', '\'', '`':
			inStr = c
			out.WriteByte(c)
		case '(', '{':
			// find matching close
			closeCh := byte(')')
			if c == '{' {
				closeCh = '}'
			}
			d := 0
			j := i
			in2 := byte(0)
			for ; j < len(s); j++ {
				cj := s[j]
				if in2 != 0 {
					if cj == '\\' {
						j++
					} else if cj == in2 {
						in2 = 0
					}
					continue
				}
				if cj == '"' || cj == '\'' || cj == '`' {
					in2 = cj
				} else if cj == c {
					d++
				} else if cj == closeCh {
					d--
					if d == 0 {
						break
					}
				}
			}
			if j >= len(s) {
				out.WriteString(s[i:])
				return out.String()
			}
			inner := s[i+1 : j]
			out.WriteByte(c)
			if c == '{' {
				// closure body "return X" : rewrite X
				t := strings.TrimSpace(inner)
				if strings.HasPrefix(t, "return ") {
					out.WriteString(" return " + rewriteImplies(strings.TrimSpace(t[7:])) + " ")
				} else {
					out.WriteString(rewriteInner(inner))
				}
			} else {
				// argument lists: split on top-level commas
				parts := splitTop(inner, ',')
				for k, p := range parts {
					if k > 0 {
						out.WriteByte(',')
					}
					out.WriteString(rewriteImplies(p))
				}
			}
			out.WriteByte(closeCh)
			i = j
		default:
			out.WriteByte(c)
		}
	}
	return out.String()
}

func splitTop(s string, sep byte) []string {
	var parts []string
	depth := 0
	inStr := byte(0)
	start := 0
	for i := 0; i < len(s); i++ {
		c := s[i]
		if inStr != 0 {
			if c == '\\' {
				i++
			} else if c == inStr {
				inStr = 0
			}
			continue
		}
		switch c {
		case '"', '\'', '`':
			inStr = c
		case '(', '[', '{':
			depth++
		case ')', ']', '}':
			depth--
		default:
			if c == sep && depth == 0 {
				parts = append(parts, s[start:i])
				start = i + 1
			}
		}
	}
	parts = append(parts, s[start:])
	return parts
}

// Finding is a recorded genuine defect: a region of the inputs of one obligation
// on which the obligation is known to fail. The obligation is still proved outside
// the union of its regions, and each region is re-confirmed (canary) on every run.
type Finding struct {
	Property   string `json:"property"`
	Obligation string `json:"obligation"` // e.g. calculateModRM.ensures.ea
	Pkg        string `json:"pkg"`        // package path suffix, e.g. internal/codegen
	ID         string `json:"id"`
	Region     string `json:"region"` // Go expression over the function's parameters and results
	What       string `json:"what"`
	Input      string `json:"input"` // an end-to-end input that shows it
	Pred       string `json:"-"`
}

type FindingsFile struct {
	Findings []*Finding `json:"findings"`
	Fixed    []string   `json:"fixed"`
}

func loadFindings(path string) (*FindingsFile, error) {
	ff := &FindingsFile{}
	b, err := os.ReadFile(path)
	if err != nil {
		if os.IsNotExist(err) {
			return ff, nil
		}
		return nil, err
	}
	if err := json.Unmarshal(b, ff); err != nil {
		return nil, fmt.Errorf("%s: %v", path, err)
	}
	return ff, nil
}

// World is everything loaded from /repo for one run.
type World struct {
	Stubs     map[string][]byte // contract files that do not compile, replaced by clause-only stubs
	Fset      *token.FileSet
	Prog      *ssa.Program
	Pkgs      map[string]*packages.Package // phase A packages by path
	Types     map[string]*types.Package    // phase B types by path
	Info      map[string]*types.Info
	Files     map[string][]*ast.File
	SSA       map[string]*ssa.Package
	Contracts map[string]*Contract // by id
	Preds     map[string]*ssa.Function
	RepoDir   string
	GenSrc    map[string]string // generated overlay sources by file path
	Overlay   map[string][]byte // all overlay contents (instrumented + generated)
	LoopCount map[string]int    // contract id -> number of loops in the function
	Findings  *FindingsFile
	dynCache  sync.Map
}

func funcDisplayName(fd *ast.FuncDecl) string {
	if fd.Recv == nil || len(fd.Recv.List) == 0 {
		return fd.Name.Name
	}
	t := fd.Recv.List[0].Type
	star := false
	if s, ok := t.(*ast.StarExpr); ok {
		star = true
		t = s.X
	}
	if ix, ok := t.(*ast.IndexExpr); ok {
		t = ix.X
	}
	name := ""
	if id, ok := t.(*ast.Ident); ok {
		name = id.Name
	}
	if star {
		return "(*" + name + ")." + fd.Name.Name
	}
	return "(" + name + ")." + fd.Name.Name
}

func predBase(fn string) string {
	return sanitize(strings.NewReplacer("(", "", ")", "", "*", "P", ".", "_").Replace(fn))
}

// loadWorld loads /repo (working tree), reads contracts, synthesizes predicate
// functions and loop instrumentation in an in-memory overlay, re-type-checks the
// repository packages with it and builds SSA.
func loadWorld(repoDir string) (*World, error) {
	return loadWorldF(repoDir, &FindingsFile{})
}

func loadWorldF(repoDir string, ff *FindingsFile) (*World, error) {
	cfg := &packages.Config{
		Mode:       packages.LoadAllSyntax,
		Dir:        repoDir,
		BuildFlags: []string{"-tags=verif", "-mod=mod"},
		Env:        append(os.Environ(), "GOFLAGS=-mod=mod", "GOPROXY=off", "GOSUMDB=off", "GOTOOLCHAIN=local"),
	}
	// A contract file that no longer compiles against the code (a spec function names a helper that
	// was renamed, ...) must not take the other packages' contracts down with it: such a file is
	// replaced, in memory, by a stub that keeps its package clause and its //@ clauses only; the
	// clauses then fail to type-check one by one and their contracts are reported as broken.
	stubs := map[string][]byte{}
	var pkgs []*packages.Package
	for round := 0; ; round++ {
		cfg.Overlay = stubs
		var err error
		pkgs, err = packages.Load(cfg, "./...")
		if err != nil {
			return nil, err
		}
		added := false
		packages.Visit(pkgs, nil, func(p *packages.Package) {
			if !strings.HasPrefix(p.PkgPath, repoModule) {
				return
			}
			for _, e := range p.Errors {
				file := e.Pos
				if i := strings.Index(file, ":"); i >= 0 {
					file = file[:i]
				}
				if filepath.Base(file) != "verif_contracts.go" || stubs[file] != nil {
					continue
				}
				src, rerr := os.ReadFile(file)
				if rerr != nil {
					continue
				}
				fmt.Fprintf(os.Stderr, "contract file %s does not compile (%s): its contracts are treated as broken\n", file, e.Msg)
				stubs[file] = contractStub(src)
				added = true
			}
		})
		if !added || round > 8 {
			break
		}
	}
	w := &World{Fset: cfg.Fset, Pkgs: map[string]*packages.Package{}, Types: map[string]*types.Package{}, Info: map[string]*types.Info{},
		Files: map[string][]*ast.File{}, SSA: map[string]*ssa.Package{}, Contracts: map[string]*Contract{}, Preds: map[string]*ssa.Function{},
		RepoDir: repoDir, GenSrc: map[string]string{}, Overlay: map[string][]byte{}, LoopCount: map[string]int{}, Findings: ff, Stubs: stubs}
	for f, b := range stubs {
		w.Overlay[f] = b
	}
	if len(pkgs) > 0 {
		w.Fset = pkgs[0].Fset
	}
	var all []*packages.Package
	seen := map[*packages.Package]bool{}
	var visit func(p *packages.Package)
	visit = func(p *packages.Package) {
		if seen[p] {
			return
		}
		seen[p] = true
		var keys []string
		for k := range p.Imports {
			keys = append(keys, k)
		}
		sort.Strings(keys)
		for _, k := range keys {
			visit(p.Imports[k])
		}
		all = append(all, p)
	}
	for _, p := range pkgs {
		visit(p)
	}
	nerr := 0
	for _, p := range all {
		w.Pkgs[p.PkgPath] = p
		if strings.HasPrefix(p.PkgPath, repoModule) {
			for _, e := range p.Errors {
				fmt.Fprintf(os.Stderr, "load error: %v\n", e)
				nerr++
			}
		}
	}
	if nerr > 0 {
		return nil, fmt.Errorf("%d errors loading %s (the tree must compile with -tags verif)", nerr, repoDir)
	}

	// ---- contracts + overlay generation, per repo package (dependency order) ----
	prog := ssa.NewProgram(w.Fset, ssa.InstantiateGenerics)
	w.Prog = prog
	imp := &worldImporter{w: w}
	for _, p := range all {
		if p.Types == nil || p.IllTyped && !strings.HasPrefix(p.PkgPath, repoModule) {
			if p.Types == nil {
				continue
			}
		}
		if !strings.HasPrefix(p.PkgPath, repoModule) {
			w.Types[p.PkgPath] = p.Types
			if len(p.Syntax) > 0 || p.PkgPath == "unsafe" {
				w.SSA[p.PkgPath] = prog.CreatePackage(p.Types, p.Syntax, p.TypesInfo, true)
			}
			continue
		}
		if err := w.processRepoPackage(p, imp); err != nil {
			return nil, err
		}
	}
	prog.Build()
	for _, f := range w.Findings.Findings {
		if f.Pred == "" {
			continue
		}
		for path, sp := range w.SSA {
			if strings.HasSuffix(path, f.Pkg) && strings.HasPrefix(path, repoModule) {
				if fn := sp.Func(f.Pred); fn != nil {
					w.Preds[path+"."+f.Pred] = fn
				}
			}
		}
	}
	// resolve predicate functions
	for _, c := range w.Contracts {
		if c.Broken != "" {
			continue
		}
		sp := w.SSA[c.Pkg]
		for _, cl := range c.Clauses {
			if cl.Pred == "" {
				continue
			}
			f := sp.Func(cl.Pred)
			if f == nil {
				return nil, fmt.Errorf("predicate %s not found in SSA of %s", cl.Pred, c.Pkg)
			}
			w.Preds[c.Pkg+"."+cl.Pred] = f
			if af := sp.Func(cl.Pred + "_ant"); af != nil {
				w.Preds[c.Pkg+"."+cl.Pred+"_ant"] = af
			}
		}
	}
	return w, nil
}

type worldImporter struct{ w *World }

func (i *worldImporter) Import(path string) (*types.Package, error) {
	if p, ok := i.w.Types[path]; ok {
		return p, nil
	}
	return nil, fmt.Errorf("package %s not loaded", path)
}

// processRepoPackage generates the overlay of one package. A contract that no
// longer fits the code (its function is gone, a loop ordinal does not exist, a clause
// does not type-check against the current declarations) is marked broken and left
// out, so that only the properties depending on it are affected.
func (w *World) processRepoPackage(p *packages.Package, imp types.Importer) error {
	broken := map[string]string{}
	for attempt := 0; attempt < 60; attempt++ {
		id, reason, err := w.processRepoPackageOnce(p, imp, broken)
		if err != nil {
			return err
		}
		if id == "" {
			return nil
		}
		broken[id] = reason
		for k, c := range w.Contracts {
			if c.Pkg == p.PkgPath {
				delete(w.Contracts, k)
			}
		}
		for _, f := range w.Findings.Findings {
			if strings.HasSuffix(p.PkgPath, f.Pkg) {
				f.Pred = ""
			}
		}
	}
	return fmt.Errorf("too many broken contracts in %s", p.PkgPath)
}

func (w *World) processRepoPackageOnce(p *packages.Package, imp types.Importer, broken map[string]string) (string, string, error) {
	// 1. contracts
	var contracts []*Contract
	for _, f := range p.CompiledGoFiles {
		if filepath.Base(f) != "verif_contracts.go" {
			continue
		}
		src, err := w.readFile(f)
		if err != nil {
			return "", "", err
		}
		cs, err := parseContracts(p.PkgPath, f, src)
		if err != nil {
			return "", "", err
		}
		contracts = append(contracts, cs...)
	}
	// 2. index function declarations
	decls := map[string]*ast.FuncDecl{}
	declFile := map[string]*ast.File{}
	for _, f := range p.Syntax {
		for _, d := range f.Decls {
			if fd, ok := d.(*ast.FuncDecl); ok {
				decls[funcDisplayName(fd)] = fd
				declFile[funcDisplayName(fd)] = f
			}
		}
	}
	qualPkgs := map[string]string{} // package name -> path, for every package named in a generated signature
	qual := func(q *types.Package) string {
		if q == p.Types {
			return ""
		}
		qualPkgs[q.Name()] = q.Path()
		return q.Name()
	}
	var gen bytes.Buffer
	type ins struct {
		off  int
		text string
	}
	inserts := map[string][]ins{} // filename -> insertions
	for _, c := range contracts {
		if _, dup := w.Contracts[c.id()]; dup {
			return "", "", fmt.Errorf("%s:%d: duplicate contract for %s", c.File, c.Line, c.Func)
		}
		w.Contracts[c.id()] = c
		c.Broken = broken[c.id()]
		if c.Broken != "" {
			continue
		}
		fd := decls[c.Func]
		if fd == nil && w.isIfaceMethod(p, c.Func) {
			// contract on an interface method: carries options only (pure), no predicates
			c.Options["trusted"] = true
			continue
		}
		if fd == nil {
			return c.id(), fmt.Sprintf("the contract names function %q which does not exist in package %s", c.Func, p.PkgPath), nil
		}
		obj := p.TypesInfo.Defs[fd.Name].(*types.Func)
		sig := obj.Type().(*types.Signature)
		var params, results []string
		pname := func(v *types.Var, i int, pre string) string {
			if v.Name() == "" || v.Name() == "_" {
				return fmt.Sprintf("%s%d", pre, i)
			}
			return v.Name()
		}
		if sig.Recv() != nil {
			params = append(params, pname(sig.Recv(), 0, "recv")+" "+types.TypeString(sig.Recv().Type(), qual))
		}
		for i := 0; i < sig.Params().Len(); i++ {
			v := sig.Params().At(i)
			ts := types.TypeString(v.Type(), qual)
			if sig.Variadic() && i == sig.Params().Len()-1 {
				ts = "[]" + types.TypeString(v.Type().(*types.Slice).Elem(), qual)
			}
			params = append(params, pname(v, i, "param")+" "+ts)
		}
		for i := 0; i < sig.Results().Len(); i++ {
			v := sig.Results().At(i)
			results = append(results, pname(v, i, "result")+" "+types.TypeString(v.Type(), qual))
		}
		base := predBase(c.Func)
		nreq, nens := 0, 0
		// loops in source order
		var loops []ast.Stmt
		ast.Inspect(fd.Body, func(n ast.Node) bool {
			switch n.(type) {
			case *ast.ForStmt, *ast.RangeStmt:
				loops = append(loops, n.(ast.Stmt))
			case *ast.FuncLit:
				return false
			}
			return true
		})
		w.LoopCount[c.id()] = len(loops)
		perLoop := map[int]int{}
		for _, cl := range c.Clauses {
			expr := rewriteImplies(cl.Expr)
			switch cl.Kind {
			case "requires":
				cl.Pred = fmt.Sprintf("vcP_%s_req%d", base, nreq)
				if cl.Label == "" {
					cl.Label = fmt.Sprintf("%d", nreq)
				}
				nreq++
				fmt.Fprintf(&gen, "func %s(%s) bool { return %s }\n\n", cl.Pred, strings.Join(params, ", "), expr)
			case "ensures":
				if cl.Label == "" {
					cl.Label = fmt.Sprintf("%d", nens)
				}
				cl.Pred = fmt.Sprintf("vcP_%s_ens_%s", base, strings.ReplaceAll(sanitize(cl.Label), ".", "_"))
				nens++
				fmt.Fprintf(&gen, "func %s(%s) bool { return %s }\n\n", cl.Pred, strings.Join(append(append([]string{}, params...), results...), ", "), expr)
				if ant, ok := topAntecedent(cl.Expr); ok {
					fmt.Fprintf(&gen, "func %s_ant(%s) bool { return %s }\n\n", cl.Pred, strings.Join(append(append([]string{}, params...), results...), ", "), rewriteImplies(ant))
				}
			case "calls":
				// calls[label] <callee full name> : <predicate over the caller's parameters and arg0..argN>
				idx := strings.Index(cl.Expr, " : ")
				if idx < 0 {
					return c.id(), fmt.Sprintf("calls clause at line %d needs the form '<callee> : <predicate>'", cl.Line), nil
				}
				cl.Callee = strings.TrimSpace(cl.Expr[:idx])
				pexpr := rewriteImplies(strings.TrimSpace(cl.Expr[idx+3:]))
				sigc := w.findCalleeSig(p, cl.Callee)
				if sigc == nil {
					return c.id(), fmt.Sprintf("calls clause at line %d names %q, which is not a function known to package %s", cl.Line, cl.Callee, p.PkgPath), nil
				}
				if cl.Label == "" {
					cl.Label = fmt.Sprintf("%d", nens)
				}
				nens++
				var cargs []string
				k := 0
				if sigc.Recv() != nil {
					cargs = append(cargs, fmt.Sprintf("arg%d %s", k, types.TypeString(sigc.Recv().Type(), qual)))
					k++
				}
				for i := 0; i < sigc.Params().Len(); i++ {
					cargs = append(cargs, fmt.Sprintf("arg%d %s", k, types.TypeString(sigc.Params().At(i).Type(), qual)))
					k++
				}
				cl.Pred = fmt.Sprintf("vcC_%s_%s", base, strings.ReplaceAll(sanitize(cl.Label), ".", "_"))
				fmt.Fprintf(&gen, "func %s(%s) bool { return %s }\n\n", cl.Pred, strings.Join(append(append([]string{}, params...), cargs...), ", "), pexpr)
			case "exits":
				if cl.Label == "" {
					cl.Label = fmt.Sprintf("%d", nens)
				}
				nens++
				cl.Pred = fmt.Sprintf("vcX_%s_%s", base, strings.ReplaceAll(sanitize(cl.Label), ".", "_"))
				fmt.Fprintf(&gen, "func %s(%s) bool { return %s }\n\n", cl.Pred, strings.Join(params, ", "), expr)
			case "relates":
				if cl.Label == "" {
					cl.Label = fmt.Sprintf("%d", nens)
				}
				nens++
				cl.Pred = fmt.Sprintf("vcR_%s_%s", base, strings.ReplaceAll(sanitize(cl.Label), ".", "_"))
				ren := func(xs []string) []string {
					var r []string
					for _, x := range xs {
						i := strings.Index(x, " ")
						r = append(r, x[:i]+"_2"+x[i:])
					}
					return r
				}
				all := append(append(append(append([]string{}, params...), ren(params)...), results...), ren(results)...)
				fmt.Fprintf(&gen, "func %s(%s) bool { return %s }\n\n", cl.Pred, strings.Join(all, ", "), expr)
				if ant, ok := topAntecedent(cl.Expr); ok {
					fmt.Fprintf(&gen, "func %s_ant(%s) bool { return %s }\n\n", cl.Pred, strings.Join(all, ", "), rewriteImplies(ant))
				}
			case "final":
				// an assertion just before the last statement of the function body (its final return),
				// which may mention the local variables in scope there
				if fd.Body == nil || len(fd.Body.List) == 0 {
					return c.id(), "final clause on a function without body", nil
				}
				lastStmt := fd.Body.List[len(fd.Body.List)-1]
				if _, ok := lastStmt.(*ast.ReturnStmt); !ok {
					return c.id(), "final clause: the last statement of the function is not a return", nil
				}
				ex, err := parser.ParseExpr(expr)
				if err != nil {
					return c.id(), fmt.Sprintf("clause at line %d does not parse: %v", cl.Line, err), nil
				}
				scope := p.TypesInfo.Scopes[fd.Type]
				if scope == nil {
					return c.id(), "no scope for function body", nil
				}
				inner := scope.Innermost(lastStmt.Pos())
				if inner == nil {
					inner = scope
				}
				var locals, ltypes []string
				seenL := map[string]bool{}
				bound := map[string]bool{}
				ast.Inspect(ex, func(n ast.Node) bool {
					if fl, ok := n.(*ast.FuncLit); ok {
						for _, f := range fl.Type.Params.List {
							for _, nm := range f.Names {
								bound[nm.Name] = true
							}
						}
					}
					return true
				})
				ast.Inspect(ex, func(n ast.Node) bool {
					if x, ok := n.(*ast.Ident); ok && !seenL[x.Name] && !bound[x.Name] {
						_, o := inner.LookupParent(x.Name, lastStmt.Pos())
						if v, ok := o.(*types.Var); ok && v.Parent() != nil && v.Parent() != p.Types.Scope() && v.Parent() != types.Universe && !v.IsField() {
							seenL[x.Name] = true
							locals = append(locals, x.Name)
							ltypes = append(ltypes, x.Name+" "+types.TypeString(v.Type(), qual))
						}
					}
					return true
				})
				if cl.Label == "" {
					cl.Label = fmt.Sprintf("%d", nens)
				}
				nens++
				cl.Locals = locals
				cl.Pred = fmt.Sprintf("vcF_%s_%s", base, strings.ReplaceAll(sanitize(cl.Label), ".", "_"))
				fmt.Fprintf(&gen, "func %s(%s) bool { return %s }\n\n", cl.Pred, strings.Join(ltypes, ", "), expr)
				file := w.Fset.Position(lastStmt.Pos()).Filename
				inserts[file] = append(inserts[file], ins{off: w.Fset.Position(lastStmt.Pos()).Offset,
					text: fmt.Sprintf(" %s(%s); ", cl.Pred, strings.Join(locals, ", "))})
			case "invariant", "decreases":
				if cl.Loop < 0 || cl.Loop >= len(loops) {
					return c.id(), fmt.Sprintf("%s has %d loops, a clause names loop %d", c.Func, len(loops), cl.Loop), nil
				}
				lp := loops[cl.Loop]
				var body *ast.BlockStmt
				switch l := lp.(type) {
				case *ast.ForStmt:
					body = l.Body
				case *ast.RangeStmt:
					body = l.Body
				}
				// locals used by the expression
				ex, err := parser.ParseExpr(expr)
				if err != nil {
					return c.id(), fmt.Sprintf("clause at line %d does not parse: %v", cl.Line, err), nil
				}
				scope := p.TypesInfo.Scopes[body]
				if scope == nil {
					return c.id(), "no scope for loop body", nil
				}
				var locals []string
				var ltypes []string
				seenL := map[string]bool{}
				bound := map[string]bool{}
				ast.Inspect(ex, func(n ast.Node) bool {
					if fl, ok := n.(*ast.FuncLit); ok {
						for _, f := range fl.Type.Params.List {
							for _, nm := range f.Names {
								bound[nm.Name] = true
							}
						}
					}
					return true
				})
				usesIter := false
				ast.Inspect(ex, func(n ast.Node) bool {
					switch x := n.(type) {
					case *ast.SelectorExpr:
						ast.Inspect(x.X, func(m ast.Node) bool { return true })
					case *ast.Ident:
						if x.Name == "iter" {
							usesIter = true
						}
						if seenL[x.Name] || bound[x.Name] || x.Name == "iter" {
							return true
						}
						_, o := scope.LookupParent(x.Name, body.Lbrace+1)
						if v, ok := o.(*types.Var); ok && v.Parent() != nil && v.Parent() != p.Types.Scope() && v.Parent() != types.Universe && !v.IsField() {
							seenL[x.Name] = true
							locals = append(locals, x.Name)
							ltypes = append(ltypes, x.Name+" "+types.TypeString(v.Type(), qual))
						}
					}
					return true
				})
				j := perLoop[cl.Loop]
				perLoop[cl.Loop]++
				if cl.Label == "" {
					cl.Label = fmt.Sprintf("%d", j)
				}
				cl.Locals = locals
				ret := "bool"
				pre := "vcI"
				if cl.Kind == "decreases" {
					ret = "int"
					pre = "vcD"
				}
				cl.Pred = fmt.Sprintf("%s_%s_%d_%d", pre, base, cl.Loop, j)
				fmt.Fprintf(&gen, "func %s(%s) %s { return %s }\n\n", cl.Pred, strings.Join(append([]string{"iter int"}, ltypes...), ", "), ret, expr)
				// the iteration count exists for range loops over slices only: it is passed when the clause names it
				iterArg := "0"
				if usesIter {
					iterArg = "vcIter()"
				}
				file := w.Fset.Position(body.Lbrace).Filename
				inserts[file] = append(inserts[file], ins{off: w.Fset.Position(body.Lbrace).Offset + 1,
					text: fmt.Sprintf(" %s(%s); ", cl.Pred, strings.Join(append([]string{iterArg}, locals...), ", "))})
			}
		}
	}
	// 2b. region predicates of known findings on ensures clauses of this package
	for _, f := range w.Findings.Findings {
		if !strings.HasSuffix(p.PkgPath, f.Pkg) {
			continue
		}
		parts := strings.SplitN(f.Obligation, ".ensures.", 2)
		if len(parts) != 2 && strings.HasSuffix(f.Obligation, ".ensures") {
			parts = []string{strings.TrimSuffix(f.Obligation, ".ensures"), ""}
		}
		if len(parts) != 2 {
			parts = strings.SplitN(f.Obligation, ".nopanic.", 2)
			if len(parts) != 2 {
				continue
			}
		}
		fd := decls[parts[0]]
		if fd == nil || broken[p.PkgPath+"."+parts[0]] != "" || broken["finding:"+f.ID] != "" {
			continue
		}
		obj := p.TypesInfo.Defs[fd.Name].(*types.Func)
		sig := obj.Type().(*types.Signature)
		var ps []string
		nm := func(v *types.Var, i int, pre string) string {
			if v.Name() == "" || v.Name() == "_" {
				return fmt.Sprintf("%s%d", pre, i)
			}
			return v.Name()
		}
		if sig.Recv() != nil {
			ps = append(ps, nm(sig.Recv(), 0, "recv")+" "+types.TypeString(sig.Recv().Type(), qual))
		}
		for i := 0; i < sig.Params().Len(); i++ {
			ps = append(ps, nm(sig.Params().At(i), i, "param")+" "+types.TypeString(sig.Params().At(i).Type(), qual))
		}
		if strings.Contains(f.Obligation, ".ensures") {
			for i := 0; i < sig.Results().Len(); i++ {
				ps = append(ps, nm(sig.Results().At(i), i, "result")+" "+types.TypeString(sig.Results().At(i).Type(), qual))
			}
		}
		f.Pred = fmt.Sprintf("vcK_%s_%s", predBase(parts[0]), strings.ReplaceAll(sanitize(f.ID), ".", "_"))
		fmt.Fprintf(&gen, "func %s(%s) bool { return %s }\n\n", f.Pred, strings.Join(ps, ", "), rewriteImplies(f.Region))
	}
	// 3. overlay sources
	genFile := ""
	if len(contracts) > 0 {
		dir := filepath.Dir(p.CompiledGoFiles[0])
		genFile = filepath.Join(dir, "zz_verif_gen.go")
		body := gen.String()
		// imports: those of the package's files whose name occurs in the generated text
		impNames := map[string]string{}
		for _, f := range p.Syntax {
			for _, is := range f.Imports {
				path := strings.Trim(is.Path.Value, `"`)
				name := ""
				if is.Name != nil {
					name = is.Name.Name
				} else if q, ok := w.Types[path]; ok {
					name = q.Name()
				} else if q, ok := w.Pkgs[path]; ok {
					name = q.Name
				}
				if name == "_" || name == "." || name == "" {
					continue
				}
				impNames[name] = path
			}
		}
		// packages named in signatures
		for name, path := range qualPkgs {
			if _, ok := impNames[name]; !ok {
				impNames[name] = path
			}
		}
		var hdr bytes.Buffer
		fmt.Fprintf(&hdr, "//go:build verif\n\npackage %s\n\n", p.Name)
		var names []string
		for n := range impNames {
			names = append(names, n)
		}
		sort.Strings(names)
		for _, n := range names {
			if regexp.MustCompile(`\b` + regexp.QuoteMeta(n) + `\.`).MatchString(body) {
				fmt.Fprintf(&hdr, "import %s %q\n", n, impNames[n])
			}
		}
		if !strings.Contains(hdr.String(), "import fmt ") {
			hdr.WriteString("import fmt \"fmt\"\n\nvar _ = fmt.Sprintf\n")
		}
		hdr.WriteString("\n")
		helpers := map[string]string{
			"old":          "func old[T any](x T) T { return x }\n",
			"forall":       "func forall(lo, hi int, p func(k int) bool) bool { for k := lo; k < hi; k++ { if !p(k) { return false } }; return true }\n",
			"exists":       "func exists(lo, hi int, p func(k int) bool) bool { for k := lo; k < hi; k++ { if p(k) { return true } }; return false }\n",
			"forallKeys":   "func forallKeys[V any](m map[string]V, p func(k string) bool) bool { for k := range m { if !p(k) { return false } }; return true }\n",
			"forallStrings": "func forallStrings(p func(k string) bool) bool { return true }\n",
			"vcIter":       "func vcIter() int { return 0 }\n",
			"vcSortPerm":   "func vcSortPerm(i int) int { return i }\n",
			"vcSortFact":   "func vcSortFact(a, b int) bool { return true }\n",
			"vcSame":       "func vcSame[T any](a, b T) bool { return fmt.Sprintf(\"%p\", any(a)) == fmt.Sprintf(\"%p\", any(b)) }\n",
			"vcWriteCount": "func vcWriteCount() int { return 0 }\n",
			"vcWritten":    "func vcWritten() []byte { return nil }\n",
			"vcExitCode":   "func vcExitCode() int { return 0 }\n",
			"vcPrinted":    "func vcPrinted() bool { return false }\n",
			"vcLoggedError": "func vcLoggedError() bool { return false }\n",
			"vcCallFailed":  "func vcCallFailed() bool { return false }\n",
			"vcCalled":      "func vcCalled(callee string) bool { return false }\n",
			"vcResult":      "func vcResult[T any](callee string, idx int) T { var z T; return z }\n",
			"vcArg":         "func vcArg[T any](callee string, idx int) T { var z T; return z }\n",
			"implies":      "func implies(a, b bool) bool { return !a || b }\n",
		}
		var hn []string
		for n := range helpers {
			hn = append(hn, n)
		}
		sort.Strings(hn)
		for _, n := range hn {
			if p.Types.Scope().Lookup(n) == nil {
				hdr.WriteString(helpers[n])
			}
		}
		hdr.WriteString("\n")
		full := hdr.String() + body
		w.GenSrc[genFile] = full
		w.Overlay[genFile] = []byte(full)
	}
	// instrumented sources
	instr := map[string][]byte{}
	for file, list := range inserts {
		src, err := os.ReadFile(file)
		if err != nil {
			return "", "", err
		}
		sort.Slice(list, func(i, j int) bool { return list[i].off < list[j].off })
		var out bytes.Buffer
		prev := 0
		for _, in := range list {
			out.Write(src[prev:in.off])
			out.WriteString(in.text)
			prev = in.off
		}
		out.Write(src[prev:])
		instr[file] = out.Bytes()
		w.Overlay[file] = out.Bytes()
	}
	// 4. re-type-check
	var files []*ast.File
	if genFile == "" && len(instr) == 0 {
		files = p.Syntax
	} else {
		for i, f := range p.CompiledGoFiles {
			if src, ok := instr[f]; ok {
				af, err := parser.ParseFile(w.Fset, f, src, parser.ParseComments)
				if err != nil {
					return "", "", fmt.Errorf("instrumented %s: %v", f, err)
				}
				files = append(files, af)
			} else {
				// re-parse to obtain fresh AST objects (type info maps are per check)
				src, err := w.readFile(f)
				if err != nil {
					return "", "", err
				}
				af, err := parser.ParseFile(w.Fset, f, src, parser.ParseComments)
				if err != nil {
					return "", "", err
				}
				files = append(files, af)
				_ = i
			}
		}
		if genFile != "" {
			af, err := parser.ParseFile(w.Fset, genFile, w.GenSrc[genFile], parser.ParseComments)
			if err != nil {
				if id := w.ownerOfGenError(p, err, genFile, decls, contracts); id != "" {
					return id, fmt.Sprintf("a clause does not parse: %v", err), nil
				}
				return "", "", fmt.Errorf("generated predicates for %s do not parse: %v\n%s", p.PkgPath, err, numbered(w.GenSrc[genFile]))
			}
			files = append(files, af)
		}
	}
	info := &types.Info{
		Types:      map[ast.Expr]types.TypeAndValue{},
		Defs:       map[*ast.Ident]types.Object{},
		Uses:       map[*ast.Ident]types.Object{},
		Implicits:  map[ast.Node]types.Object{},
		Instances:  map[*ast.Ident]types.Instance{},
		Scopes:     map[ast.Node]*types.Scope{},
		Selections: map[*ast.SelectorExpr]*types.Selection{},
	}
	var terrs []error
	conf := types.Config{Importer: imp, Error: func(err error) { terrs = append(terrs, err) }, GoVersion: "go1.22"}
	tp, _ := conf.Check(p.PkgPath, w.Fset, files, info)
	if len(terrs) > 0 {
		for _, e := range terrs {
			if id := w.ownerOfGenError(p, e, genFile, decls, contracts); id != "" {
				return id, fmt.Sprintf("a clause does not type-check against the current code: %v", e), nil
			}
		}
		var b strings.Builder
		for _, e := range terrs {
			fmt.Fprintf(&b, "  %v\n", e)
		}
		return "", "", fmt.Errorf("contracts of %s do not type-check:\n%s", p.PkgPath, b.String())
	}
	w.Types[p.PkgPath] = tp
	w.Info[p.PkgPath] = info
	w.Files[p.PkgPath] = files
	w.SSA[p.PkgPath] = w.Prog.CreatePackage(tp, files, info, true)
	return "", "", nil
}

var genFuncRe = regexp.MustCompile(`^func (vc[A-Z]_[A-Za-z0-9_]+)\(`)

// ownerOfGenError maps an error position in the generated or instrumented sources
// to the contract (or finding) it belongs to.
func (w *World) ownerOfGenError(p *packages.Package, err error, genFile string, decls map[string]*ast.FuncDecl, contracts []*Contract) string {
	var file string
	var line int
	switch e := err.(type) {
	case types.Error:
		pos := e.Fset.Position(e.Pos)
		file, line = pos.Filename, pos.Line
	case scanner.ErrorList:
		if len(e) > 0 {
			file, line = e[0].Pos.Filename, e[0].Pos.Line
		}
	default:
		return ""
	}
	if file == genFile {
		lines := strings.Split(w.GenSrc[genFile], "\n")
		for l := line - 1; l >= 0 && l < len(lines); l-- {
			if m := genFuncRe.FindStringSubmatch(lines[l]); m != nil {
				name := m[1]
				for _, c := range contracts {
					for _, cl := range c.Clauses {
						if cl.Pred == name || cl.Pred+"_ant" == name {
							return c.id()
						}
					}
				}
				for _, f := range w.Findings.Findings {
					if f.Pred == name {
						return "finding:" + f.ID
					}
				}
				return ""
			}
		}
		return ""
	}
	// instrumented source: the enclosing function
	for name, fd := range decls {
		a, b := w.Fset.Position(fd.Pos()), w.Fset.Position(fd.End())
		if a.Filename == file && a.Line <= line && line <= b.Line {
			for _, c := range contracts {
				if c.Func == name {
					return c.id()
				}
			}
		}
	}
	return ""
}

func numbered(s string) string {
	var b strings.Builder
	for i, l := range strings.Split(s, "\n") {
		fmt.Fprintf(&b, "%4d %s\n", i+1, l)
	}
	return b.String()
}

// lookupFunc finds the SSA function for a contract-style name in a package.
func (w *World) lookupFunc(pkgPath, name string) *ssa.Function {
	sp := w.SSA[pkgPath]
	if sp == nil {
		return nil
	}
	if !strings.HasPrefix(name, "(") {
		return sp.Func(name)
	}
	// (*T).M or (T).M
	i := strings.Index(name, ").")
	recv := name[1:i]
	meth := name[i+2:]
	ptr := strings.HasPrefix(recv, "*")
	recv = strings.TrimPrefix(recv, "*")
	tn, ok := sp.Pkg.Scope().Lookup(recv).(*types.TypeName)
	if !ok {
		return nil
	}
	var t types.Type = tn.Type()
	if ptr {
		t = types.NewPointer(t)
	}
	ms := w.Prog.MethodSets.MethodSet(t)
	for i := 0; i < ms.Len(); i++ {
		if ms.At(i).Obj().Name() == meth {
			return w.Prog.MethodValue(ms.At(i))
		}
	}
	return nil
}

// contractFor returns the contract of an SSA function, if any.
func (w *World) contractFor(fn *ssa.Function) *Contract {
	if fn.Pkg == nil || fn.Parent() != nil {
		return nil
	}
	name := fn.Name()
	if fn.Signature.Recv() != nil {
		rt := fn.Signature.Recv().Type()
		ptr := false
		if p, ok := rt.(*types.Pointer); ok {
			ptr = true
			rt = p.Elem()
		}
		n, ok := rt.(*types.Named)
		if !ok {
			return nil
		}
		if ptr {
			name = "(*" + n.Obj().Name() + ")." + fn.Name()
		} else {
			name = "(" + n.Obj().Name() + ")." + fn.Name()
		}
	}
	if c := w.Contracts[fn.Pkg.Pkg.Path()+"."+name]; c != nil && c.Broken == "" {
		return c
	}
	return nil
}

// findCalleeSig resolves names like "pkg.Func", "(*pkg.Type).Method", "(pkg.Type).Method"
// (pkg = package name as imported by p, or a full path) to a signature.
func (w *World) findCalleeSig(p *packages.Package, name string) *types.Signature {
	lookupPkg := func(q string) *types.Package {
		if q == "" || q == p.Name {
			return p.Types
		}
		for path, tp := range w.Types {
			if path == q || tp.Name() == q {
				if _, imported := p.Imports[path]; imported || path == q {
					return tp
				}
			}
		}
		for path, ip := range p.Imports {
			if ip.Name == q || path == q {
				return ip.Types
			}
		}
		// transitively known packages (e.g. text/template through a dependency)
		for path, tp := range w.Types {
			if path == q || strings.HasSuffix(path, "/"+q) || tp.Name() == q {
				return tp
			}
		}
		return nil
	}
	if strings.HasPrefix(name, "(") {
		i := strings.Index(name, ").")
		if i < 0 {
			return nil
		}
		recv := strings.TrimPrefix(name[1:i], "*")
		ptr := strings.HasPrefix(name[1:i], "*")
		meth := name[i+2:]
		j := strings.LastIndex(recv, ".")
		pk := lookupPkg("")
		tn := recv
		if j >= 0 {
			pk = lookupPkg(recv[:j])
			tn = recv[j+1:]
		}
		if pk == nil {
			return nil
		}
		obj, ok := pk.Scope().Lookup(tn).(*types.TypeName)
		if !ok {
			return nil
		}
		var t types.Type = obj.Type()
		if ptr {
			t = types.NewPointer(t)
		}
		ms := types.NewMethodSet(t)
		for k := 0; k < ms.Len(); k++ {
			if ms.At(k).Obj().Name() == meth {
				return ms.At(k).Obj().Type().(*types.Signature)
			}
		}
		return nil
	}
	j := strings.LastIndex(name, ".")
	pk := lookupPkg("")
	fnName := name
	if j >= 0 {
		pk = lookupPkg(name[:j])
		fnName = name[j+1:]
	}
	if pk == nil {
		return nil
	}
	if f, ok := pk.Scope().Lookup(fnName).(*types.Func); ok {
		return f.Type().(*types.Signature)
	}
	return nil
}

// isIfaceMethod: name has the form "(I).M" where I is an interface type of p with method M.
func (w *World) isIfaceMethod(p *packages.Package, name string) bool {
	if !strings.HasPrefix(name, "(") {
		return false
	}
	i := strings.Index(name, ").")
	if i < 0 {
		return false
	}
	tn, ok := p.Types.Scope().Lookup(name[1:i]).(*types.TypeName)
	if !ok {
		return false
	}
	it, ok := tn.Type().Underlying().(*types.Interface)
	if !ok {
		return false
	}
	for k := 0; k < it.NumMethods(); k++ {
		if it.Method(k).Name() == name[i+2:] {
			return true
		}
	}
	return false
}


// readFile reads a repository source file, or its in-memory stub.
func (w *World) readFile(f string) ([]byte, error) {
	if b, ok := w.Stubs[f]; ok {
		return b, nil
	}
	return os.ReadFile(f)
}

// contractStub keeps the build constraint, the package clause and the //@ clause lines of a
// contract file (blank lines between contracts preserved), and nothing else.
func contractStub(src []byte) []byte {
	var b bytes.Buffer
	for _, l := range strings.Split(string(src), "\n") {
		t := strings.TrimSpace(l)
		switch {
		case strings.HasPrefix(t, "//go:build"), strings.HasPrefix(t, "package "), strings.HasPrefix(t, "//@"):
			b.WriteString(l + "\n")
			if strings.HasPrefix(t, "//go:build") {
				b.WriteString("\n")
			}
		default:
			b.WriteString("\n")
		}
	}
	return b.Bytes()
}
