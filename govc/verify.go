package main

import (
	"fmt"
	"go/types"
	"sort"
	"strings"

	"golang.org/x/tools/go/ssa"
)

// FuncVC is the verification condition of one function under contract.
type FuncVC struct {
	Contract *Contract
	Fn       *ssa.Function
	Engine   *Engine
	Obls     []*Obligation
	Err      error // tool limit: the function could not be translated
	Inputs   []inputSym
	Trusted  bool
}

type inputSym struct {
	Name string
	Type types.Type
	Val  Val
}

func (e *Engine) assumeInputRefs(v Val, t types.Type) {
	switch x := v.(type) {
	case Sc:
		if x.S == SRef && bitsOf(t) == 0 {
			e.sc.assume(app("bvult", x.T, bvLit(0x80000000, 32)))
			e.sc.stampRef(x.T, 0)
		}
	case StructVal:
		st := under(t).(*types.Struct)
		for i, f := range x.F {
			e.assumeInputRefs(f, st.Field(i).Type())
		}
	case SliceVal:
		e.sc.assume(app("bvult", x.Arr, bvLit(0x80000000, 32)))
		e.sc.stampRef(x.Arr, 0)
	case IfaceVal:
		e.sc.assume(app("bvult", x.Ref, bvLit(0x80000000, 32)))
		e.sc.stampRef(x.Ref, 0)
	case TupleVal:
		tt := t.(*types.Tuple)
		for i, f := range x {
			e.assumeInputRefs(f, tt.At(i).Type())
		}
	}
}

// buildVC translates the function of contract c and generates its obligations.
func buildVC(w *World, c *Contract) (vc *FuncVC) {
	if c.Broken != "" {
		return &FuncVC{Contract: c, Err: fmt.Errorf("contract does not fit the code: %s", c.Broken)}
	}
	fn := w.lookupFunc(c.Pkg, c.Func)
	vc = &FuncVC{Contract: c, Fn: fn}
	if c.Options["trusted"] {
		// an assumed contract: used at call sites, not verified against the body
		vc.Trusted = true
		vc.Engine = newEngine(w)
		return
	}
	if fn == nil {
		vc.Err = fmt.Errorf("function %s not found in SSA", c.id())
		return
	}
	e := newEngine(w)
	vc.Engine = e
	e.root = fn
	e.rootC = c
	defer func() {
		if r := recover(); r != nil {
			if u, ok := r.(unsupported); ok {
				vc.Err = u
				return
			}
			panic(r)
		}
	}()
	// symbolic inputs
	var args []Val
	for _, p := range fn.Params {
		v := e.freshVal(p.Type(), "in_"+p.Name())
		e.assumeInputRefs(v, p.Type())
		args = append(args, v)
		vc.Inputs = append(vc.Inputs, inputSym{p.Name(), p.Type(), v})
	}
	e.unrollCopies = c.Options["unroll-appends"]
	h0 := Heap{"#entry": "1"}
	if c.Options["with-init"] {
		// package-level tables: execute the package initialiser symbolically first, so that
		// globals hold exactly what the real init puts there (calls to other packages'
		// initialisers are skipped)
		e.runInit(fn.Pkg, h0)
	}
	e.oldHeap = h0.clone()
	h0 = e.oldHeap
	// preconditions
	for _, cl := range c.byKind("requires") {
		pf := w.Preds[c.Pkg+"."+cl.Pred]
		t := e.evalPred(pf, args, h0, nil)
		e.sc.assume(t)
	}
	// vacuity guard: the precondition is satisfiable
	e.oblige(&Obligation{Name: c.Func + ".cover.requires", Kind: "cover", Clause: "requires satisfiable", Goal: "true", Cover: true, Func: c.Func, Pos: e.posOf(fn.Pos())})
	e.rootArgs = args
	execHeap := h0.clone()
	delete(execHeap, "#entry")
	res := e.execFunction(fn, args, nil, "true", execHeap)
	// vacuity guard: the function can return
	if !c.Options["noreturn"] {
		e.oblige(&Obligation{Name: c.Func + ".cover.returns", Kind: "cover", Clause: "some execution returns", Goal: res.reach, Cover: true, Func: c.Func, Pos: e.posOf(fn.Pos())})
	}
	var resList []Val
	if tv, ok := res.ret.(TupleVal); ok {
		resList = tv
	} else if res.ret != nil {
		resList = []Val{res.ret}
	}
	for _, cl := range c.byKind("ensures") {
		if strings.HasPrefix(cl.Label, "T.") {
			// a trusted clause of a partly verified function: assumed at call sites, not proved here
			e.trustedClauses = append(e.trustedClauses, c.Func+".ensures."+cl.Label+": "+cl.Expr)
			continue
		}
		pf := w.Preds[c.Pkg+"."+cl.Pred]
		t := e.evalPred(pf, append(append([]Val{}, args...), resList...), res.heap, h0)
		// known findings: prove the clause outside the recorded regions, and confirm
		// that each recorded region still fails (canary)
		var regions []string
		for _, f := range w.Findings.Findings {
			full := c.Func + ".ensures." + cl.Label
			if !(f.Obligation == full || strings.HasPrefix(full, f.Obligation+".")) || !strings.HasSuffix(c.Pkg, f.Pkg) {
				continue
			}
			kp := w.Preds[c.Pkg+"."+f.Pred]
			if kp == nil {
				continue
			}
			r := e.evalPred(kp, append(append([]Val{}, args...), resList...), res.heap, h0)
			regions = append(regions, r)
			e.oblige(&Obligation{Name: c.Func + ".ensures." + cl.Label + ".canary." + f.ID, Kind: "canary", Clause: "known finding " + f.ID + " still fails: " + f.What,
				Goal: and(res.reach, r, not(t)), Cover: true, Func: c.Func, Pos: e.posOf(fn.Pos()), Finding: f, Using: cl.Using})
		}
		e.oblige(&Obligation{
			Name:     c.Func + ".ensures." + cl.Label,
			Kind:     "ensures",
			Clause:   cl.Expr,
			Goal:     implies(and(res.reach, not(or(regions...))), t),
			NRegions: len(regions),
			Pos:      fmt.Sprintf("%s:%d", strings.TrimPrefix(cl.File, w.RepoDir+"/"), cl.Line),
			Func:     c.Func,
			Using:    cl.Using,
		})
		// cover of the antecedent
		if ap := w.Preds[c.Pkg+"."+cl.Pred+"_ant"]; ap != nil {
			a := e.evalPred(ap, append(append([]Val{}, args...), resList...), res.heap, h0)
			e.oblige(&Obligation{Name: c.Func + ".cover.ensures." + cl.Label, Kind: "cover", Clause: "antecedent of: " + cl.Expr, Goal: and(res.reach, a), Cover: true, Func: c.Func, Pos: e.posOf(fn.Pos())})
		}
	}
	// a calls clause that matched no call is vacuous
	for _, cl := range c.byKind("calls") {
		if e.callsSeen[cl.Label] == 0 {
			e.oblige(&Obligation{Name: c.Func + ".calls." + cl.Label + ".present", Kind: "ensures", Clause: "the function calls " + cl.Callee + " (clause would otherwise be vacuous)", Goal: "false", Func: c.Func, Pos: e.posOf(fn.Pos())})
		}
	}
	// exit clauses: evaluated at every call of os.Exit / log.Fatal reachable in the function
	for _, cl := range c.byKind("exits") {
		pf := w.Preds[c.Pkg+"."+cl.Pred]
		for i, xs := range e.exitSites {
			e.curExitCode = xs.code
			saveW := e.ghostWrites
			e.ghostWrites = e.ghostWrites[:xs.nwrites]
			t := e.evalPred(pf, args, xs.heap, h0)
			e.ghostWrites = saveW
			e.oblige(&Obligation{
				Name:   fmt.Sprintf("%s.exits.%s.site%d", c.Func, cl.Label, i),
				Kind:   "ensures",
				Clause: cl.Expr + "   [at the process exit at " + xs.pos + "]",
				Goal:   implies(xs.cond, t),
				Pos:    xs.pos,
				Func:   c.Func,
			})
		}
	}
	// relational clauses: a second, independent execution from the same entry heap
	if rels := c.byKind("relates"); len(rels) > 0 {
		var args2 []Val
		for _, p := range fn.Params {
			v := e.freshVal(p.Type(), "in2_"+p.Name())
			e.assumeInputRefs(v, p.Type())
			args2 = append(args2, v)
		}
		for _, cl := range c.byKind("requires") {
			pf := w.Preds[c.Pkg+"."+cl.Pred]
			e.sc.assume(e.evalPred(pf, args2, h0, nil))
		}
		// Run 2 is executed on top of run 1's final heap. This is equivalent to a
		// second run from the entry heap provided run 1 wrote only objects it allocated
		// itself (checked below): run 2's inputs are pre-existing objects and can never
		// alias them. Both results are then visible in one heap.
		for k := range res.heap {
			if e.dirty[k] {
				fail("relational clause on %s: the function writes pre-existing objects (%s)", c.Func, shortKey(k))
			}
		}
		res2 := e.execFunction(fn, args2, nil, "true", res.heap)
		var resList2 []Val
		if tv, ok := res2.ret.(TupleVal); ok {
			resList2 = tv
		} else if res2.ret != nil {
			resList2 = []Val{res2.ret}
		}
		for _, cl := range rels {
			pf := w.Preds[c.Pkg+"."+cl.Pred]
			all := append(append(append(append([]Val{}, args...), args2...), resList...), resList2...)
			t := e.evalPred(pf, all, res2.heap, nil)
			e.oblige(&Obligation{
				Name:   c.Func + ".relates." + cl.Label,
				Kind:   "ensures",
				Clause: cl.Expr,
				Goal:   implies(and(res.reach, res2.reach), t),
				Pos:    fmt.Sprintf("%s:%d", strings.TrimPrefix(cl.File, w.RepoDir+"/"), cl.Line),
				Func:   c.Func,
			})
			if ap := w.Preds[c.Pkg+"."+cl.Pred+"_ant"]; ap != nil {
				a := e.evalPred(ap, all, res2.heap, nil)
				e.oblige(&Obligation{Name: c.Func + ".cover.relates." + cl.Label, Kind: "cover", Clause: "antecedent of: " + cl.Expr, Goal: and(res.reach, res2.reach, a), Cover: true, Func: c.Func, Pos: e.posOf(fn.Pos())})
			}
		}
	}
	// no package-level state: everything reachable from the function (statically, through
	// interfaces and through function values) stores nothing into package-level variables
	if c.Options["no-global-writes"] {
		gws := e.globalWritesOf(fn)
		seenG := map[string]bool{}
		for _, gw := range gws {
			if gw.fn != nil && gw.fn.Name() == "init" && gw.fn.Synthetic != "" {
				continue
			}
			if gw.fn != nil && (gw.fn.Name() == "init" || strings.HasPrefix(gw.fn.Name(), "init#")) {
				continue // package initialisation, not reachable from an assembly run
			}
			name := gw.g.Pkg.Pkg.Name() + "." + gw.g.Name()
			if seenG[name] {
				continue
			}
			seenG[name] = true
			e.oblige(&Obligation{Name: c.Func + ".globals." + name, Kind: "frame", Clause: "no store into the package-level variable " + name + " (in " + gw.fn.String() + " at " + gw.pos + ")", Goal: "false", Func: c.Func, Pos: gw.pos})
		}
		e.oblige(&Obligation{Name: c.Func + ".globals.scan", Kind: "frame", Clause: fmt.Sprintf("static scan of %s and everything it can call for stores into package-level variables (%d found)", c.Func, len(seenG)), Goal: "(= (_ bv0 8) (_ bv0 8))", Func: c.Func, Pos: e.posOf(fn.Pos())})
	}
	// frame: components changed for pre-existing objects must be listed in assigns
	if c.Options["trusted-frame"] {
		e.trustedClauses = append(e.trustedClauses, c.Func+": assigns clause (frame) trusted, not checked against the body")
	} else {
		e.frameObligations(c, res, h0)
	}
	vc.Obls = e.obls
	return
}

func (e *Engine) frameObligations(c *Contract, res execResult, h0 Heap) {
	var pats []string
	desig := map[string][]string{} // pattern -> entry references of the designated parameters
	for _, cl := range c.byKind("assigns") {
		for _, item := range splitTop(cl.Expr, ',') {
			item = strings.TrimSpace(item)
			if item == "" || item == "nothing" {
				continue
			}
			pname, pat := assignsItem(item)
			if pname == "" {
				pats = append(pats, pat)
				continue
			}
			if ref, ok := e.paramRef(e.root, e.rootArgs, pname); ok {
				desig[pat] = append(desig[pat], ref)
			} else {
				pats = append(pats, pat) // not an object parameter: treat as type-level
			}
		}
	}
	keys := append([]string{}, e.compOrder...)
	sort.Strings(keys)
	for _, k := range keys {
		cp := e.comps[k]
		final := e.heapGet(res.heap, cp)
		if final == cp.init || !e.dirty[k] {
			// unchanged, or written only at objects allocated by this execution
			continue
		}
		allowed := false
		for _, p := range pats {
			if componentMatches(k, p) || p == "*" {
				allowed = true
			}
		}
		if allowed {
			continue
		}
		r := e.sc.declare("frame_r", SRef)
		others := "true"
		for pat, refs := range desig {
			if componentMatches(k, pat) {
				// only the designated objects may differ
				for _, ref := range refs {
					others = and(others, not(eq(r, ref)))
				}
			}
		}
		goal := implies(and(res.reach, app("bvult", r, bvLit(0x80000000, 32)), others), eq(sel(final, r), sel(cp.init, r)))
		e.oblige(&Obligation{
			Name:   c.Func + ".frame." + shortKey(k),
			Kind:   "frame",
			Clause: "objects existing at entry keep their " + shortKey(k) + " (not listed in assigns)",
			Goal:   goal,
			Func:   c.Func,
			Pos:    e.posOf(e.root.Pos()),
			Using:  frameUsing(c),
		})
	}
}

func shortKey(k string) string {
	if i := strings.LastIndex(k, "/"); i >= 0 {
		return k[i+1:]
	}
	return k
}

// runInit executes the synthetic init function of pkg on heap h.
func (e *Engine) runInit(pkg *ssa.Package, h Heap) {
	initFn := pkg.Func("init")
	if initFn == nil {
		return
	}
	if g := pkg.Var("init$guard"); g != nil {
		e.store(h, PtrVal{Base: e.globalRef(g), Root: g.Type().(*types.Pointer).Elem()}, g.Type().(*types.Pointer).Elem(), Sc{"false", SBool})
	}
	savePure := e.pure
	e.pure = true // panic sites inside init are not obligations of the function under contract
	e.inInit = true
	e.execFunction(initFn, nil, nil, "true", h)
	e.inInit = false
	e.pure = savePure
	// everything allocated by init is a pre-existing object for the function under contract
	for k := range e.dirty {
		delete(e.dirty, k)
	}
}


// frameUsing: the labelled hypotheses the frame obligations of a contract use: those named by
// "using(...)" on its assigns clause; without one, all (nil).
func frameUsing(c *Contract) []string {
	for _, cl := range c.byKind("assigns") {
		if cl.Using != nil {
			return cl.Using
		}
	}
	return nil
}
