package main

import (
	"fmt"
	"go/constant"
	"go/token"
	"go/types"
	"sort"
	"strings"

	"golang.org/x/tools/go/ssa"
)

// Obligation is one proof goal: under the assumptions preceding it in the
// script, Goal must hold.
type Obligation struct {
	Name     string // <func>.<class>[.<label>]
	Kind     string // ensures | requires-at-call | panic | inv-entry | inv-preserved | decreases | cover | frame
	Clause   string // clause text or site description
	Goal     string // SMT term that must be valid
	Upto     int    // script prefix length
	Pos      string // source position
	Cover    bool   // cover query: Goal must be satisfiable (vacuity guard)
	Func     string
	Finding  *Finding // for canaries
	NRegions int
	Using    []string // labelled hypotheses this obligation uses (nil: all)
	InLoop   string   // allocation base of the loop body the obligation was generated in ("" outside loops)
}

// Engine translates one function (plus what it inlines) into one Script.
type Engine struct {
	calleeWrites string // vcWriteCount() of the callee whose postconditions are being evaluated
	unrollCopies bool // contract option unroll-appends
	callLog map[string]*callRecord // ghost call log of the function under contract
	globalNames []string // declared addresses of package-level variables
	w             *World
	sc            *Script
	comps         map[string]*component
	compOrder     []string
	nalloc        int
	obls          []*Obligation
	lits          map[string]string // string literal -> constant name
	litOrder      []string
	litFacts      map[string]bool
	tags          map[string]int // dynamic type key -> tag
	tagTypes      []types.Type
	funcIDs       map[*ssa.Function]int
	abstracted    map[string]int // external callees havocked
	assumedExt    map[string]int // external callees with built-in (assumed) models
	inlined       map[string]int
	usedContracts map[string]int
	depth         int
	stack         []*ssa.Function
	root          *ssa.Function
	rootC         *Contract
	oldHeap       Heap // entry heap of the function under verification (for old())
	curHeapForOld Heap
	uf            map[string]bool
	warnings      []string
	pure          bool // translating ghost/spec code: panic sites are not obligations
	strOps        map[string]bool
	loopStates    map[*loopInfo]*liState
	oblCount      map[string]int
	recMemo       map[*ssa.Function]bool
	callsSeen     map[string]int
	inlineMemo    map[*ssa.Function]string
	pendingWrites []map[string]bool
	curExitCode   string
	exitSites     []exitSite
	ghostWrites   []ghostWriteRec
	ghostEvents   [][3]string
	epochs        map[string]int
	litHooks      []func()
	inLitHook     bool
	hookKeys      map[string]bool
	allocReach    map[string]string
	pureMemo      map[string]Val
	rootArgs      []Val
	inInit        bool
	trustedClauses []string // clauses of partly verified functions that are assumed, not proved
	noPanicNoted  bool
	packCalls     int
	failedTerm    string // ghost state: a callee whose contract says failure-is-event has returned an error
	loggedTerm    string // ghost state: an error-level line has been logged so far (on this path)
	calleeLogFlag string // while a callee's postconditions are evaluated: its "logged an error" flag
	lastSort      *sortRec
	lastSortP     string // permutation array of the most recent sort call (ghost: vcSortPerm)
	allocBase     string // loop allocation base of the block being executed ("" outside loops)
	loopAllocN    map[string]int
	lastLoopBase  string
	allocMark     int
	parseCalls    []string
	guard         string // reach condition of the block being executed (guards stores)
	memo          map[string]execResult
	dirty         map[string]bool
	loopModKeys   map[*loopInfo]map[string]bool
}

func newEngine(w *World) *Engine {
	e := &Engine{w: w, sc: newScript(), comps: map[string]*component{}, lits: map[string]string{}, litFacts: map[string]bool{},
		guard: "true", curExitCode: "(_ bv0 64)", epochs: map[string]int{}, hookKeys: map[string]bool{}, allocReach: map[string]string{}, pureMemo: map[string]Val{}, loopAllocN: map[string]int{}, tags: map[string]int{}, funcIDs: map[*ssa.Function]int{}, abstracted: map[string]int{}, assumedExt: map[string]int{},
		inlined: map[string]int{}, usedContracts: map[string]int{}, uf: map[string]bool{}, strOps: map[string]bool{}, loopStates: map[*loopInfo]*liState{}, oblCount: map[string]int{}, memo: map[string]execResult{}, dirty: map[string]bool{}}
	e.inlineMemo = map[*ssa.Function]string{}
	e.recMemo = map[*ssa.Function]bool{}
	e.callsSeen = map[string]int{}
	e.sc.add("(declare-sort F64 0)")
	e.sc.add("(declare-const f64_zero F64)")
	e.sc.add("(declare-const str_empty Str)")
	// string lengths are below 2^40 by construction (no axiom needed, also under binders)
	e.sc.add("(declare-fun gs_len40 (Str) (_ BitVec 40))")
	e.sc.add("(define-fun gs_len ((s Str)) (_ BitVec 64) ((_ zero_extend 24) (gs_len40 s)))")
	e.sc.add("(assert (= (gs_len str_empty) (_ bv0 64)))")
	e.sc.add("(declare-fun gs_id (Str) (_ BitVec 32))")
	e.sc.add("(assert (= (gs_id str_empty) (_ bv1 32)))")
	e.sc.declared["gs_len"] = ""
	e.lits[""] = "str_empty"
	e.litOrder = append(e.litOrder, "")
	return e
}

func (e *Engine) funcID(f *ssa.Function) int {
	if id, ok := e.funcIDs[f]; ok {
		return id
	}
	id := 0x7f000000 + len(e.funcIDs) + 1
	e.funcIDs[f] = id
	return id
}

func (e *Engine) tagOf(t types.Type) string {
	k := typeKey(t)
	id, ok := e.tags[k]
	if !ok {
		id = len(e.tags) + 1
		e.tags[k] = id
		e.tagTypes = append(e.tagTypes, t)
	}
	return bvLit(uint64(id), 16)
}

// strLit returns the constant for a string literal, declaring it on first use.
func (e *Engine) strLit(s string) string {
	if c, ok := e.lits[s]; ok {
		return c
	}
	name := fmt.Sprintf("str!%d_%s", len(e.lits), sanitize(trunc(s, 16)))
	e.lits[s] = name
	e.litOrder = append(e.litOrder, s)
	e.sc.declared[name] = SStr
	e.sc.add(fmt.Sprintf("(declare-const %s Str)", name))
	// distinct from every other literal (injective numbering), and its length is known
	e.sc.add(fmt.Sprintf("(assert (= (gs_id %s) (_ bv%d 32)))", name, len(e.litOrder)))
	e.sc.add(fmt.Sprintf("(assert (= (gs_len %s) %s))", name, bvLit(uint64(len(s)), 64)))
	// facts of the string functions in use, for the new literal
	if !e.inLitHook {
		e.inLitHook = true
		for i := 0; i < len(e.litHooks); i++ {
			e.litHooks[i]()
		}
		e.inLitHook = false
	}
	return name
}

func trunc(s string, n int) string {
	if len(s) > n {
		return s[:n]
	}
	return s
}

func (e *Engine) warn(format string, a ...interface{}) {
	e.warnings = append(e.warnings, fmt.Sprintf(format, a...))
}

func (e *Engine) warnOnce(msg string) {
	for _, w := range e.warnings {
		if w == msg {
			return
		}
	}
	e.warnings = append(e.warnings, msg)
}

func (e *Engine) oblige(o *Obligation) {
	if o.Goal == "true" && !o.Cover {
		return
	}
	if o.InLoop == "" {
		o.InLoop = e.sc.curLoop
	}
	e.oblCount[o.Name]++
	if n := e.oblCount[o.Name]; n > 1 {
		o.Name = fmt.Sprintf("%s#%d", o.Name, n)
	}
	if o.Kind == "panic" && e.rootC != nil && e.rootArgs != nil {
		// known findings on panic sites: regions over the function's parameters (entry state)
		var regions []string
		for _, f := range e.w.Findings.Findings {
			if f.Obligation != o.Name || !strings.HasSuffix(e.rootC.Pkg, f.Pkg) || f.Pred == "" {
				continue
			}
			kp := e.w.Preds[e.rootC.Pkg+"."+f.Pred]
			if kp == nil {
				continue
			}
			r := e.evalPred(kp, e.rootArgs, e.oldHeap, nil)
			regions = append(regions, r)
			c := &Obligation{Name: o.Name + ".canary." + f.ID, Kind: "canary", Clause: "known finding " + f.ID + " still fails: " + f.What,
				Goal: and(r, not(o.Goal)), Cover: true, Func: o.Func, Pos: o.Pos, Finding: f}
			c.Upto = e.sc.mark()
			e.obls = append(e.obls, c)
		}
		if len(regions) > 0 {
			o.Goal = implies(not(or(regions...)), o.Goal)
			o.NRegions = len(regions)
		}
	}
	o.Upto = e.sc.mark()
	e.obls = append(e.obls, o)
}

// ---- function execution ----

type blockState struct {
	reachIn  string
	reachOut string
	heap     Heap
	edge     []string // edge condition per successor
	done     bool
}

type frame struct {
	fn     *ssa.Function
	vals   map[ssa.Value]Val
	bs     map[*ssa.BasicBlock]*blockState
	loops  map[*ssa.BasicBlock]*loopInfo // by header
	back   map[[2]int]bool
	defers []deferred
	rets   []retSite
	pos    string
}

type deferred struct {
	cond string
	call *ssa.CallCommon
	vals []Val
	fn   Val
}

// exitSite is a call of os.Exit (or log.Fatal*): condition, exit code, heap snapshot.
type exitSite struct {
	cond    string
	code    string
	heap    Heap
	pos     string
	nwrites int
}

type retSite struct {
	cond string
	val  Val
	heap Heap
}

type loopInfo struct {
	header      *ssa.BasicBlock
	blocks      map[*ssa.BasicBlock]bool
	invs        []*ssa.Call // ghost invariant calls (in source order)
	decs        []*ssa.Call
	cone        []ssa.Instruction // pure instructions (outside header) feeding ghost calls, in order
	base        string            // allocation base symbol of the loop body
	points      []ssa.Value       // addresses of single cells written in the loop
	fieldPoints []*ssa.FieldAddr
	slicePoints []ssa.Value
	objPoints   []objPoint
}

type execResult struct {
	ret   Val
	reach string // condition under which the function returns normally
	heap  Heap
}

func (e *Engine) posOf(p token.Pos) string {
	if !p.IsValid() {
		return ""
	}
	ps := e.w.Fset.Position(p)
	return fmt.Sprintf("%s:%d", strings.TrimPrefix(ps.Filename, e.w.RepoDir+"/"), ps.Line)
}

// execFunction symbolically executes fn on args under reach/heap and returns
// the merged result. Loops must carry invariants (ghost calls).
func (e *Engine) execFunction(fn *ssa.Function, args []Val, bind []Val, reach string, heap Heap) execResult {
	if len(fn.Blocks) == 0 {
		fail("function %s has no body", fn)
	}
	for _, s := range e.stack {
		if s == fn {
			fail("recursive call to %s (needs a contract)", fn)
		}
	}
	if len(e.stack) > 12 {
		fail("inlining depth exceeded at %s", fn)
	}
	e.stack = append(e.stack, fn)
	defer func() { e.stack = e.stack[:len(e.stack)-1] }()

	fr := &frame{fn: fn, vals: map[ssa.Value]Val{}, bs: map[*ssa.BasicBlock]*blockState{}, back: map[[2]int]bool{}}
	for i, p := range fn.Params {
		if i < len(args) {
			fr.vals[p] = args[i]
		}
	}
	for i, fv := range fn.FreeVars {
		if i < len(bind) {
			fr.vals[fv] = bind[i]
		}
	}
	order := e.analyzeCFG(fr)
	// The heap is one linear history for the whole (acyclic) execution: blocks are
	// executed in topological order and every store to a pre-existing object is
	// guarded by the reach condition of its block, so stores of blocks that are not
	// on the executed path are no-ops. No heap merging at joins is needed, and the
	// final heap is valid for every return site.
	saveGuard := e.guard
	for _, b := range order {
		e.execBlock(fr, b, reach, heap)
	}
	e.guard = saveGuard
	if len(fr.rets) == 0 {
		return execResult{ret: nil, reach: "false", heap: heap}
	}
	res := fr.rets[len(fr.rets)-1]
	outVal := res.val
	var conds []string
	conds = append(conds, res.cond)
	for i := len(fr.rets) - 2; i >= 0; i-- {
		r := fr.rets[i]
		conds = append(conds, r.cond)
		if outVal != nil {
			outVal = e.iteVal(r.cond, r.val, outVal)
		}
	}
	rc := e.sc.define("ret_"+fn.Name(), SBool, or(conds...))
	return execResult{ret: outVal, reach: rc, heap: heap}
}

func (e *Engine) mergeHeap2(c string, a, b Heap) Heap {
	out := Heap{}
	keys := map[string]bool{}
	for k := range a {
		keys[k] = true
	}
	for k := range b {
		keys[k] = true
	}
	var ks []string
	for k := range keys {
		ks = append(ks, k)
	}
	sort.Strings(ks)
	for _, k := range ks {
		cp := e.comps[k]
		ta, tb := e.heapGet(a, cp), e.heapGet(b, cp)
		if ta == tb {
			out[k] = ta
		} else {
			out[k] = e.sc.define("Hm_"+k, cp.sort, ite(c, ta, tb))
		}
	}
	return out
}

// analyzeCFG finds back edges and loops and returns the blocks in reverse
// post-order of the acyclic remainder.
func (e *Engine) analyzeCFG(fr *frame) []*ssa.BasicBlock {
	fn := fr.fn
	state := map[*ssa.BasicBlock]int{}
	var post []*ssa.BasicBlock
	var dfs func(b *ssa.BasicBlock)
	dfs = func(b *ssa.BasicBlock) {
		state[b] = 1
		for _, s := range b.Succs {
			switch state[s] {
			case 0:
				dfs(s)
			case 1:
				fr.back[[2]int{b.Index, s.Index}] = true
			}
		}
		state[b] = 2
		post = append(post, b)
	}
	dfs(fn.Blocks[0])
	var order []*ssa.BasicBlock
	for i := len(post) - 1; i >= 0; i-- {
		order = append(order, post[i])
	}
	// loops
	fr.loops = map[*ssa.BasicBlock]*loopInfo{}
	for be := range fr.back {
		tail, head := fn.Blocks[be[0]], fn.Blocks[be[1]]
		li := fr.loops[head]
		if li == nil {
			li = &loopInfo{header: head, blocks: map[*ssa.BasicBlock]bool{head: true}}
			fr.loops[head] = li
		}
		// natural loop: nodes that reach tail without passing head
		var stack []*ssa.BasicBlock
		if !li.blocks[tail] {
			li.blocks[tail] = true
			stack = append(stack, tail)
		}
		for len(stack) > 0 {
			n := stack[len(stack)-1]
			stack = stack[:len(stack)-1]
			for _, p := range n.Preds {
				if !li.blocks[p] && state[p] == 2 {
					li.blocks[p] = true
					stack = append(stack, p)
				}
			}
		}
	}
	for _, li := range fr.loops {
		e.findGhostCalls(fr, li)
	}
	// second DFS: leave loops last, so that in reverse post-order the body of a loop
	// precedes the code after the loop (assumptions made after the loop then do not
	// burden the obligations of the body)
	if len(fr.loops) > 0 {
		state2 := map[*ssa.BasicBlock]int{}
		var post2 []*ssa.BasicBlock
		var dfs2 func(b *ssa.BasicBlock)
		dfs2 = func(b *ssa.BasicBlock) {
			state2[b] = 1
			inner := e.innermost(fr, b)
			var first, second []*ssa.BasicBlock
			for _, s := range b.Succs {
				if fr.back[[2]int{b.Index, s.Index}] {
					continue
				}
				if inner != nil && !inner.blocks[s] {
					first = append(first, s) // exits of the loop: visit first, finish first, appear last
				} else {
					second = append(second, s)
				}
			}
			for _, s := range append(first, second...) {
				if state2[s] == 0 {
					dfs2(s)
				}
			}
			state2[b] = 2
			post2 = append(post2, b)
		}
		dfs2(fn.Blocks[0])
		order = order[:0]
		for i := len(post2) - 1; i >= 0; i-- {
			order = append(order, post2[i])
		}
	}
	return order
}

func isGhostInv(c *ssa.Call) (kind string, ok bool) {
	f := c.Call.StaticCallee()
	if f == nil {
		return "", false
	}
	if strings.HasPrefix(f.Name(), "vcI_") {
		return "inv", true
	}
	if strings.HasPrefix(f.Name(), "vcD_") {
		return "dec", true
	}
	return "", false
}

// findGhostCalls locates the invariant/variant ghost calls of a loop: they sit
// at the very start of the loop body, i.e. in the header itself or in a block of
// the loop reached from the header before any side effect.
func (e *Engine) findGhostCalls(fr *frame, li *loopInfo) {
	// candidates: header and its in-loop successors (transitively while the
	// blocks hold only pure instructions before the ghost calls)
	var scan func(b *ssa.BasicBlock, depth int) bool
	visited := map[*ssa.BasicBlock]bool{}
	scan = func(b *ssa.BasicBlock, depth int) bool {
		if visited[b] || depth > 3 {
			return false
		}
		visited[b] = true
		found := false
		for _, ins := range b.Instrs {
			if c, ok := ins.(*ssa.Call); ok {
				if k, ok := isGhostInv(c); ok {
					// only ghost calls that belong to *this* loop: innermost loop containing b
					if e.innermost(fr, b) != li {
						return found
					}
					if k == "inv" {
						li.invs = append(li.invs, c)
					} else {
						li.decs = append(li.decs, c)
					}
					found = true
					continue
				}
				if c.Call.StaticCallee() != nil && c.Call.StaticCallee().Name() == "vcIter" {
					continue
				}
				if e.isPureCall(c) {
					continue
				}
				return found
			}
			if st, ok := ins.(*ssa.Store); ok {
				// the copy of the range value into its (address-taken) variable precedes the ghost calls
				if a, isA := st.Addr.(*ssa.Alloc); isA && a.Block() == b {
					continue
				}
			}
			switch ins.(type) {
			case *ssa.Store, *ssa.MapUpdate, *ssa.Defer, *ssa.Go, *ssa.Send, *ssa.Panic, *ssa.RunDefers:
				return found
			}
		}
		if b == li.header || !found {
			for _, s := range b.Succs {
				if li.blocks[s] && s != li.header {
					if scan(s, depth+1) {
						found = true
					}
				}
			}
		}
		return found
	}
	scan(li.header, 0)
}

func (e *Engine) innermost(fr *frame, b *ssa.BasicBlock) *loopInfo {
	var best *loopInfo
	for _, li := range fr.loops {
		if li.blocks[b] {
			if best == nil || len(li.blocks) < len(best.blocks) {
				best = li
			}
		}
	}
	return best
}

func (e *Engine) isPureCall(c *ssa.Call) bool {
	if b, ok := c.Call.Value.(*ssa.Builtin); ok {
		switch b.Name() {
		case "len", "cap", "min", "max":
			return true
		}
		return false
	}
	f := c.Call.StaticCallee()
	if f == nil {
		return false
	}
	if f.Pkg != nil && strings.HasPrefix(f.Pkg.Pkg.Path(), repoModule) {
		n := f.Name()
		if strings.HasPrefix(n, "spec") || strings.HasPrefix(n, "vc") || n == "old" || n == "forall" || n == "exists" || n == "implies" {
			return true
		}
	}
	return false
}

// incoming returns, for block b, the list of (pred, edge condition) pairs for
// non-back edges whose predecessor has been executed, aligned with b.Preds.
func (e *Engine) incoming(fr *frame, b *ssa.BasicBlock) (conds []string, idxs []int) {
	count := map[*ssa.BasicBlock]int{}
	for j, p := range b.Preds {
		k := count[p]
		count[p]++
		if fr.back[[2]int{p.Index, b.Index}] {
			continue
		}
		ps := fr.bs[p]
		if ps == nil || !ps.done {
			continue
		}
		// k-th occurrence of b among p.Succs
		occ := 0
		cond := "false"
		for si, s := range p.Succs {
			if s == b {
				if occ == k {
					cond = ps.edge[si]
				}
				occ++
			}
		}
		conds = append(conds, cond)
		idxs = append(idxs, j)
	}
	return
}

func (e *Engine) execBlock(fr *frame, b *ssa.BasicBlock, entryReach string, entryHeap Heap) {
	st := &blockState{}
	fr.bs[b] = st
	heap := entryHeap // shared linear heap
	var conds []string
	var idxs []int
	if b.Index == 0 {
		st.reachIn = entryReach
	} else {
		conds, idxs = e.incoming(fr, b)
		if len(conds) == 0 {
			// unreachable in the acyclic remainder (e.g. only reached via back edge)
			st.reachIn = "false"
		} else {
			st.reachIn = e.sc.define(fmt.Sprintf("r_%s_b%d", fr.fn.Name(), b.Index), SBool, or(conds...))
		}
	}
	// the only way into this block is the exit edge of a loop header: the state is the loop-head
	// state (under the negated loop condition); nothing the body did on the shared heap is visible
	if len(b.Preds) == 1 {
		if pl := fr.loops[b.Preds[0]]; pl != nil && !pl.blocks[b] {
			if ls := e.loopStates[pl]; ls != nil && ls.heap != nil {
				for k := range heap {
					delete(heap, k)
				}
				for k, v := range ls.heap {
					heap[k] = v
				}
				e.loggedTerm = ls.logged
				e.failedTerm = ls.failed
			}
		}
	}
	reach := st.reachIn
	li := fr.loops[b]
	if li != nil {
		reach, heap = e.enterLoop(fr, li, reach, heap, conds, idxs)
	}
	saveBase := e.allocBase
	saveCur := e.sc.curLoop
	if inner := e.innermost(fr, b); inner != nil && inner.base != "" {
		e.allocBase = inner.base
		e.sc.curLoop = inner.base
	}
	defer func() { e.allocBase = saveBase; e.sc.curLoop = saveCur }()
	for _, ins := range b.Instrs {
		if phi, ok := ins.(*ssa.Phi); ok {
			if li != nil {
				continue // bound by enterLoop
			}
			fr.vals[phi] = e.phiValue(fr, phi, conds, idxs)
			continue
		}
		e.guard = reach
		reach = e.execInstr(fr, b, ins, reach, heap, st)
		if st.done {
			break
		}
	}
	st.reachOut = reach
	st.heap = heap.clone() // snapshot (for loop back edges)
	st.done = true
	// back edges leaving this block: check invariants
	for si, s := range b.Succs {
		if fr.back[[2]int{b.Index, s.Index}] {
			e.closeLoop(fr, fr.loops[s], b, si)
		}
	}
}

func (e *Engine) phiValue(fr *frame, phi *ssa.Phi, conds []string, idxs []int) Val {
	if len(idxs) == 0 {
		return e.freshVal(phi.Type(), "deadphi")
	}
	v := e.operand(fr, phi.Edges[idxs[len(idxs)-1]])
	for i := len(idxs) - 2; i >= 0; i-- {
		v = e.iteVal(conds[i], e.operand(fr, phi.Edges[idxs[i]]), v)
	}
	return v
}

// operand evaluates an SSA operand.
func (e *Engine) operand(fr *frame, v ssa.Value) Val {
	switch x := v.(type) {
	case *ssa.Const:
		return e.constVal(x)
	case *ssa.Function:
		return FuncVal{Fn: x}
	case *ssa.Global:
		return PtrVal{Base: e.globalRef(x), Root: x.Type().(*types.Pointer).Elem()}
	case *ssa.Builtin:
		return UnknownVal{"builtin as value"}
	}
	if r, ok := fr.vals[v]; ok {
		return r
	}
	fail("use of SSA value %s (%T) before definition in %s", v.Name(), v, fr.fn)
	return nil
}

func (e *Engine) globalRef(g *ssa.Global) string {
	name := "glob_" + sanitize(g.Pkg.Pkg.Path()+"."+g.Name())
	if _, ok := e.sc.declared[name]; !ok {
		e.sc.declared[name] = SRef
		e.sc.add(fmt.Sprintf("(declare-const %s %s)", name, SRef))
		e.sc.add(fmt.Sprintf("(assert (and (bvult %s (_ bv2147483648 32)) (not (= %s (_ bv0 32)))))", name, name))
		// distinct package-level variables live at distinct addresses
		for _, o := range e.globalNames {
			e.sc.add(fmt.Sprintf("(assert (not (= %s %s)))", name, o))
		}
		e.globalNames = append(e.globalNames, name)
	}
	return name
}

func (e *Engine) constVal(c *ssa.Const) Val {
	t := c.Type()
	if c.Value == nil {
		return e.zeroVal(t)
	}
	switch u := under(t).(type) {
	case *types.Basic:
		switch {
		case u.Info()&types.IsBoolean != 0:
			if constant.BoolVal(c.Value) {
				return Sc{"true", SBool}
			}
			return Sc{"false", SBool}
		case u.Info()&types.IsString != 0:
			return Sc{e.strLit(constant.StringVal(c.Value)), SStr}
		case u.Info()&types.IsInteger != 0:
			n, _, _ := intBits(u)
			var bits uint64
			if i, ok := constant.Int64Val(c.Value); ok {
				bits = uint64(i)
			} else if ui, ok := constant.Uint64Val(c.Value); ok {
				bits = ui
			} else {
				fail("integer constant out of range: %s", c.Value)
			}
			return Sc{bvLit(bits, n), bvSort(n)}
		case u.Info()&types.IsFloat != 0:
			return Sc{e.sc.declare("fconst", "F64"), "F64"}
		}
	}
	fail("constant of type %s", t)
	return nil
}

// zeroArr is an array (index BV64) whose first n elements (all elements if n < 0)
// are the zero value z of leaf sort el. cvc5 accepts (as const ..) only on values, so
// arrays of the uninterpreted sorts are built from stores (small n) or a lazily
// declared constant with a quantified axiom.
func (e *Engine) zeroArr(el, z string, n int) string {
	if el != SStr && el != "F64" {
		return "((as const " + arrSort(SI64, el) + ") " + z + ")"
	}
	if n >= 0 && n <= 16 {
		a := e.sc.declare("zbase", arrSort(SI64, el))
		for i := 0; i < n; i++ {
			a = sto(a, bvLit(uint64(i), 64), z)
		}
		return a
	}
	if n < 0 || n > 16 {
		// symbolic or large length: the zero initialisation of string/float elements is not
		// modelled (elements are unconstrained), which only weakens what can be proved
		e.warnOnce("zero initialisation of string elements of slices with symbolic length is not modelled (elements unconstrained)")
		return e.sc.declare("zuninit", arrSort(SI64, el))
	}
	name := "zarr_" + el
	if _, ok := e.sc.declared[name]; !ok {
		e.sc.declared[name] = arrSort(SI64, el)
		e.sc.add(fmt.Sprintf("(declare-const %s %s)", name, arrSort(SI64, el)))
		e.sc.add(fmt.Sprintf("(assert (forall ((i (_ BitVec 64))) (= (select %s i) %s)))", name, z))
	}
	return name
}
