package main

import (
	"fmt"
	"go/types"
	"os"
	"regexp"
	"strings"
	"sync"

	"golang.org/x/tools/go/ssa"
)

// Val is the symbolic value of an SSA value.
type Val interface{}

// Sc is a scalar: one SMT term of a known sort.
type Sc struct {
	T string // term
	S string // sort
}

// StructVal is a struct held by value.
type StructVal struct {
	F []Val
}

// SliceVal is a slice header; Arr == 0 is the nil slice.
type SliceVal struct {
	Arr, Off, Len string
}

// IfaceVal is an interface value: a dynamic type tag (0 = nil interface) and one
// payload slot per sort class.
type IfaceVal struct {
	Tag, Ref, Str, BV string
}

// PtrVal is a pointer: base object reference plus a path into it. A pointer to a
// whole object has an empty path and is representable as a scalar (its Base).
type PtrVal struct {
	Base string
	Root types.Type // type of the object Base refers to; for slice backing arrays a *types.Slice
	Path []pathElem
}

type pathElem struct {
	field int    // field index, or -1 for an index step
	idx   string // index term (BV64) when field == -1
	name  string
}

// FuncVal is a statically known function value (closure).
type FuncVal struct {
	Fn   *ssa.Function
	Bind []Val
}

// ArrayVal is a fixed-size array of non-scalar elements held by value: one SMT
// array (index -> leaf) per scalar leaf of the element type, in forLeaves order.
type ArrayVal struct {
	Leaves []string
	Sorts  []string // leaf sorts
}

// TupleVal is a multi-value result.
type TupleVal []Val

// UnknownVal marks a value the engine could not model; using it is an error that
// names the construct.
type UnknownVal struct{ Why string }

type unsupported struct{ msg string }

func (u unsupported) Error() string { return "unsupported: " + u.msg }

func fail(format string, a ...interface{}) {
	panic(unsupported{fmt.Sprintf(format, a...)})
}

// ---- type classification ----

func under(t types.Type) types.Type {
	for {
		switch x := t.(type) {
		case *types.Named:
			t = x.Underlying()
		case *types.Alias:
			t = types.Unalias(x)
		default:
			return t
		}
	}
}

func intBits(b *types.Basic) (bits int, signed bool, ok bool) {
	switch b.Kind() {
	case types.Int, types.Int64:
		return 64, true, true
	case types.Uint, types.Uint64, types.Uintptr:
		return 64, false, true
	case types.Int32, types.UntypedRune:
		return 32, true, true
	case types.Uint32:
		return 32, false, true
	case types.Int16:
		return 16, true, true
	case types.Uint16:
		return 16, false, true
	case types.Int8:
		return 8, true, true
	case types.Uint8:
		return 8, false, true
	case types.UntypedInt:
		return 64, true, true
	}
	return 0, false, false
}

// scalarSort returns the SMT sort for types represented by one term.
func scalarSort(t types.Type) (string, bool) {
	switch u := under(t).(type) {
	case *types.Basic:
		if u.Info()&types.IsBoolean != 0 {
			return SBool, true
		}
		if u.Info()&types.IsString != 0 {
			return SStr, true
		}
		if n, _, ok := intBits(u); ok {
			return bvSort(n), true
		}
		if u.Info()&types.IsFloat != 0 {
			return "F64", true
		}
		if u.Kind() == types.UnsafePointer {
			return SRef, true
		}
		if u.Kind() == types.UntypedNil {
			return SRef, true
		}
	case *types.Pointer, *types.Map, *types.Chan, *types.Signature:
		return SRef, true
	case *types.Array:
		if es, ok := scalarSort(u.Elem()); ok {
			return arrSort(SI64, es), true
		}
	}
	return "", false
}

func isSigned(t types.Type) bool {
	if b, ok := under(t).(*types.Basic); ok {
		_, s, _ := intBits(b)
		return s
	}
	return false
}

func bitsOf(t types.Type) int {
	if b, ok := under(t).(*types.Basic); ok {
		n, _, _ := intBits(b)
		return n
	}
	return 0
}

func isStringT(t types.Type) bool {
	b, ok := under(t).(*types.Basic)
	return ok && b.Info()&types.IsString != 0
}

func isBoolT(t types.Type) bool {
	b, ok := under(t).(*types.Basic)
	return ok && b.Info()&types.IsBoolean != 0
}

func isIface(t types.Type) bool {
	_, ok := under(t).(*types.Interface)
	return ok
}

var (
	reByte       = regexp.MustCompile(`\bbyte\b`)
	reRune       = regexp.MustCompile(`\brune\b`)
	reAny        = regexp.MustCompile(`\bany\b`)
	typeKeyCache sync.Map
)

// typeKey is a canonical name of a type (identical types give identical keys).
func typeKey(t types.Type) string {
	if k, ok := typeKeyCache.Load(t); ok {
		return k.(string)
	}
	s := types.TypeString(t, func(p *types.Package) string { return p.Path() })
	s = reByte.ReplaceAllString(s, "uint8")
	s = reRune.ReplaceAllString(s, "int32")
	s = reAny.ReplaceAllString(s, "interface{}")
	typeKeyCache.Store(t, s)
	return s
}

// ---- engine-level value helpers (need the script for naming) ----

func (e *Engine) zeroVal(t types.Type) Val {
	if at, ok := under(t).(*types.Array); ok {
		if es, ok := scalarSort(at.Elem()); ok {
			return Sc{e.zeroArr(es, zeroTerm(es, at.Elem()), int(at.Len())), arrSort(SI64, es)}
		}
	}
	if s, ok := scalarSort(t); ok {
		return Sc{zeroTerm(s, t), s}
	}
	switch u := under(t).(type) {
	case *types.Struct:
		sv := StructVal{}
		for i := 0; i < u.NumFields(); i++ {
			sv.F = append(sv.F, e.zeroVal(u.Field(i).Type()))
		}
		return sv
	case *types.Slice:
		return SliceVal{bvLit(0, 32), bvLit(0, 64), bvLit(0, 64)}
	case *types.Interface:
		return IfaceVal{bvLit(0, 16), bvLit(0, 32), e.strLit(""), bvLit(0, 64)}
	case *types.Tuple:
		var tv TupleVal
		for i := 0; i < u.Len(); i++ {
			tv = append(tv, e.zeroVal(u.At(i).Type()))
		}
		return tv
	case *types.Array:
		av := ArrayVal{}
		e.forLeaves(t, nil, u.Elem(), func(path []pathElem, suffix, leaf string, lt types.Type) {
			av.Leaves = append(av.Leaves, e.zeroArr(leaf, zeroOfLeaf(leaf, suffix, lt), int(u.Len())))
			av.Sorts = append(av.Sorts, leaf)
		})
		return av
	}
	fail("zero value of %s", t)
	return nil
}

func zeroTerm(sort string, t types.Type) string {
	switch {
	case sort == SBool:
		return "false"
	case sort == SStr:
		return "str_empty"
	case strings.HasPrefix(sort, "(_ BitVec "):
		var n int
		fmt.Sscanf(sort, "(_ BitVec %d)", &n)
		return bvLit(0, n)
	case strings.HasPrefix(sort, "(Array "):
		a := under(t).(*types.Array)
		es, _ := scalarSort(a.Elem())
		return "((as const " + sort + ") " + zeroTerm(es, a.Elem()) + ")"
	case sort == "F64":
		return "f64_zero"
	}
	fail("zero term of sort %s", sort)
	return ""
}

// freshVal returns an unconstrained value of type t.
func (e *Engine) freshVal(t types.Type, prefix string) Val {
	if s, ok := scalarSort(t); ok {
		c := e.sc.declare(prefix, s)
		return Sc{c, s}
	}
	switch u := under(t).(type) {
	case *types.Struct:
		sv := StructVal{}
		for i := 0; i < u.NumFields(); i++ {
			sv.F = append(sv.F, e.freshVal(u.Field(i).Type(), prefix+"."+u.Field(i).Name()))
		}
		return sv
	case *types.Slice:
		l := e.sc.declare(prefix+".len", SI64)
		e.sc.assume(app("bvsge", l, bvLit(0, 64)))
		e.sc.assume(app("bvslt", l, bvLit(1<<40, 64)))
		off := e.sc.declare(prefix+".off", SI64)
		e.sc.assume(app("bvsge", off, bvLit(0, 64)))
		e.sc.assume(app("bvslt", off, bvLit(1<<40, 64)))
		arr := e.sc.declare(prefix+".arr", SRef)
		// a nil slice has length 0
		e.sc.assume(implies(eq(arr, bvLit(0, 32)), eq(l, bvLit(0, 64))))
		return SliceVal{arr, off, l}
	case *types.Interface:
		return IfaceVal{e.sc.declare(prefix+".tag", STag), e.sc.declare(prefix+".ref", SRef), e.sc.declare(prefix+".str", SStr), e.sc.declare(prefix+".bv", SI64)}
	case *types.Tuple:
		var tv TupleVal
		for i := 0; i < u.Len(); i++ {
			tv = append(tv, e.freshVal(u.At(i).Type(), fmt.Sprintf("%s.%d", prefix, i)))
		}
		return tv
	case *types.Array:
		av := ArrayVal{}
		e.forLeaves(t, nil, u.Elem(), func(path []pathElem, suffix, leaf string, lt types.Type) {
			av.Leaves = append(av.Leaves, e.sc.declare(prefix+".arr", arrSort(SI64, leaf)))
			av.Sorts = append(av.Sorts, leaf)
		})
		return av
	}
	fail("fresh value of %s", t)
	return nil
}

// iteVal merges two values of the same type.
func (e *Engine) iteVal(c string, a, b Val) Val {
	if c == "true" {
		return a
	}
	if c == "false" {
		return b
	}
	switch x := a.(type) {
	case Sc:
		y, ok := b.(Sc)
		if !ok {
			if p, ok2 := b.(PtrVal); ok2 {
				y = e.ptrScalar(p)
			} else if f, ok2 := b.(FuncVal); ok2 {
				y = e.scalar(f) // a closure value merged with a function value loaded from memory
			} else {
				fail("ite of scalar with %T", b)
			}
		}
		if x.T == y.T {
			return x
		}
		return Sc{e.sc.define("ite", x.S, ite(c, x.T, y.T)), x.S}
	case StructVal:
		y := b.(StructVal)
		r := StructVal{}
		for i := range x.F {
			r.F = append(r.F, e.iteVal(c, x.F[i], y.F[i]))
		}
		return r
	case SliceVal:
		y := b.(SliceVal)
		return SliceVal{e.sc.define("ite", SRef, ite(c, x.Arr, y.Arr)), e.sc.define("ite", SI64, ite(c, x.Off, y.Off)), e.sc.define("ite", SI64, ite(c, x.Len, y.Len))}
	case IfaceVal:
		y := b.(IfaceVal)
		return IfaceVal{e.sc.define("ite", STag, ite(c, x.Tag, y.Tag)), e.sc.define("ite", SRef, ite(c, x.Ref, y.Ref)), e.sc.define("ite", SStr, ite(c, x.Str, y.Str)), e.sc.define("ite", SI64, ite(c, x.BV, y.BV))}
	case TupleVal:
		y := b.(TupleVal)
		var r TupleVal
		for i := range x {
			r = append(r, e.iteVal(c, x[i], y[i]))
		}
		return r
	case ArrayVal:
		y := b.(ArrayVal)
		r := ArrayVal{Sorts: x.Sorts}
		for i := range x.Leaves {
			r.Leaves = append(r.Leaves, e.sc.define("ite", arrSort(SI64, x.Sorts[i]), ite(c, x.Leaves[i], y.Leaves[i])))
		}
		return r
	case PtrVal:
		switch y := b.(type) {
		case PtrVal:
			if len(x.Path) == 0 && len(y.Path) == 0 {
				return PtrVal{Base: e.sc.define("ite", SRef, ite(c, x.Base, y.Base)), Root: x.Root}
			}
			if samePath(x, y) {
				return PtrVal{Base: e.sc.define("ite", SRef, ite(c, x.Base, y.Base)), Root: x.Root, Path: x.Path}
			}
			fail("merge of interior pointers with different shapes")
		case Sc:
			xs := e.ptrScalar(x)
			return Sc{e.sc.define("ite", SRef, ite(c, xs.T, y.T)), SRef}
		}
		fail("ite of pointer with %T", b)
	case FuncVal:
		if _, isSc := b.(Sc); isSc {
			return e.iteVal(c, e.scalar(x), b)
		}
		y, ok := b.(FuncVal)
		if ok && y.Fn == x.Fn && len(x.Bind) == len(y.Bind) {
			r := FuncVal{Fn: x.Fn}
			for i := range x.Bind {
				r.Bind = append(r.Bind, e.iteVal(c, x.Bind[i], y.Bind[i]))
			}
			return r
		}
		return UnknownVal{"merge of different function values"}
	case UnknownVal:
		return x
	}
	if u, ok := b.(UnknownVal); ok {
		return u
	}
	fail("ite of %T", a)
	return nil
}

func samePath(x, y PtrVal) bool {
	if len(x.Path) != len(y.Path) || !types.Identical(x.Root, y.Root) {
		return false
	}
	for i := range x.Path {
		if x.Path[i].field != y.Path[i].field || x.Path[i].idx != y.Path[i].idx {
			return false
		}
	}
	return true
}

func (e *Engine) ptrScalar(p PtrVal) Sc {
	if len(p.Path) != 0 {
		fail("interior pointer (into %s) escapes into a merged or stored value", p.Root)
	}
	return Sc{p.Base, SRef}
}

// asPtr views a pointer-typed value as a PtrVal whose root is the pointee type.
func (e *Engine) asPtr(v Val, ptrType types.Type) PtrVal {
	switch x := v.(type) {
	case PtrVal:
		return x
	case Sc:
		pt, ok := under(ptrType).(*types.Pointer)
		if !ok {
			fail("asPtr on non-pointer type %s", ptrType)
		}
		return PtrVal{Base: x.T, Root: pt.Elem()}
	}
	fail("asPtr of %T", v)
	return PtrVal{}
}

func (e *Engine) scalar(v Val) Sc {
	switch x := v.(type) {
	case Sc:
		return x
	case PtrVal:
		return e.ptrScalar(x)
	case FuncVal:
		return Sc{bvLit(uint64(e.funcID(x.Fn)), 32), SRef}
	case UnknownVal:
		fail("use of unmodelled value: %s", x.Why)
	}
	fail("scalar of %T", v)
	return Sc{}
}

// eqVal is Go's == on two values of static type t.
func (e *Engine) eqVal(a, b Val, t types.Type) string {
	switch x := a.(type) {
	case Sc, PtrVal, FuncVal:
		sa, sb := e.scalar(a), e.scalar(b)
		if sa.S == SStr {
			// comparison with the empty string is a comparison of the length with 0
			if sb.T == "str_empty" {
				return eq(app("gs_len", sa.T), bvLit(0, 64))
			}
			if sa.T == "str_empty" {
				return eq(app("gs_len", sb.T), bvLit(0, 64))
			}
		}
		return e.sc.eqS(sa.T, sb.T)
	case StructVal:
		y := b.(StructVal)
		st := under(t).(*types.Struct)
		var cs []string
		for i := range x.F {
			cs = append(cs, e.eqVal(x.F[i], y.F[i], st.Field(i).Type()))
		}
		return and(cs...)
	case IfaceVal:
		y := b.(IfaceVal)
		// comparison with the nil interface: only the dynamic type matters
		if isBVLit(y.Tag) && y.Tag == bvLit(0, 16) {
			return eq(x.Tag, y.Tag)
		}
		if isBVLit(x.Tag) && x.Tag == bvLit(0, 16) {
			return eq(x.Tag, y.Tag)
		}
		// interface equality: same dynamic type and equal payload. Payload slots not
		// used by the dynamic type are kept at their zero value by construction.
		return and(eq(x.Tag, y.Tag), eq(x.Ref, y.Ref), eq(x.Str, y.Str), eq(x.BV, y.BV))
	case SliceVal:
		// only comparison with nil is legal in Go
		y := b.(SliceVal)
		return eq(x.Arr, y.Arr)
	}
	fail("== on %T", a)
	return ""
}

// ---- heap ----

// Heap maps a component key to the SMT term currently denoting that component.
type Heap map[string]string

func (h Heap) clone() Heap {
	n := make(Heap, len(h))
	for k, v := range h {
		n[k] = v
	}
	return n
}

// component describes one heap array: all objects of a root type, one leaf path.
type component struct {
	key   string
	sort  string // full array sort
	leaf  string // leaf sort
	nidx  int    // number of index steps
	init  string // initial symbol
	late  string // symbol standing for the component after an earlier abstracted call or loop wrote it (component created later)
	leafT types.Type
}

func pathKey(root types.Type, path []pathElem, suffix string) string {
	var b strings.Builder
	// the elements of an array object live in the same component as the elements of slices of
	// that element type: slicing an array variable (arr[:]) aliases it
	if at, ok := under(root).(*types.Array); ok && len(path) > 0 && path[0].field < 0 {
		root = types.NewSlice(at.Elem())
	}
	b.WriteString(typeKey(root))
	for _, p := range path {
		if p.field < 0 {
			b.WriteString("[]")
		} else {
			b.WriteString("." + p.name)
		}
	}
	b.WriteString(suffix)
	return b.String()
}

func (e *Engine) comp(root types.Type, path []pathElem, suffix, leaf string) *component {
	// an array of scalars inside a struct is one leaf (of array sort) of that struct; access to
	// its elements (path ending in an index after a field) uses the same component
	if n := len(path); n >= 2 && path[n-1].field < 0 && path[n-2].field >= 0 && suffix == "" {
		path = path[:n-1]
		leaf = arrSort(SI64, leaf)
	}
	key := pathKey(root, path, suffix)
	if c, ok := e.comps[key]; ok {
		return c
	}
	n := 0
	for _, p := range path {
		if p.field < 0 {
			n++
		}
	}
	sort := leaf
	for i := 0; i < n; i++ {
		sort = arrSort(SI64, sort)
	}
	sort = arrSort(SRef, sort)
	c := &component{key: key, sort: sort, leaf: leaf, nidx: n}
	c.init = "H0_" + sanitize(key)
	if _, dup := e.sc.declared[c.init]; dup {
		c.init = e.sc.freshName("H0_" + key)
	}
	e.sc.declared[c.init] = sort
	// heap symbols are always global (never functions of binders)
	e.sc.add(fmt.Sprintf("(declare-const %s %s)", c.init, sort))
	e.comps[key] = c
	e.compOrder = append(e.compOrder, key)
	e.lateHavoc(c)
	return c
}

// lateHavoc: a component that is touched for the first time after an abstracted
// call or a loop that may have written it must not read as the entry state.
func (e *Engine) lateHavoc(c *component) {
	for _, keys := range e.pendingWrites {
		if e.inModSet(keys, c.key) {
			if os.Getenv("GOVC_DEBUG") != "" {
				fmt.Fprintf(os.Stderr, "late havoc of %s because of write set %v\n", c.key, keys)
			}
			name := e.sc.freshName("Hlate_" + c.key)
			e.sc.declared[name] = c.sort
			e.sc.add(fmt.Sprintf("(declare-const %s %s)", name, c.sort))
			c.late = name
			e.dirty[c.key] = true
			return
		}
	}
}

func (e *Engine) heapGet(h Heap, c *component) string {
	if t, ok := h[c.key]; ok {
		return t
	}
	if c.late != "" {
		if _, entry := h["#entry"]; !entry {
			return c.late
		}
	}
	return c.init
}

func idxTerms(path []pathElem) []string {
	var r []string
	for _, p := range path {
		if p.field < 0 {
			r = append(r, p.idx)
		}
	}
	return r
}

func (e *Engine) loadLeaf(h Heap, p PtrVal, suffix, leaf string, isRef bool) string {
	c := e.comp(p.Root, p.Path, suffix, leaf)
	cur := e.heapGet(h, c)
	t := e.sc.selIdx(cur, p.Base)
	for _, ix := range idxTerms(p.Path) {
		t = e.sc.selIdx(t, ix)
	}
	r := e.sc.define("ld", leaf, t)
	if isRef && leaf == SRef && cur == c.init && suffix != ".tag" {
		// objects of the pre-state are never objects allocated by this execution
		if len(e.sc.binders) == 0 {
			e.sc.assume(app("bvult", r, bvLit(0x80000000, 32)))
		}
		e.sc.stampRef(r, 0)
	} else if isRef && leaf == SRef && suffix != ".tag" && !isBVLit(r) {
		// memory safety of Go: a reference read from memory never denotes an object that has not
		// been allocated yet (references are numbered in allocation order within each band)
		a := or(app("bvult", r, bvLit(uint64(0x80000000)+uint64(e.nalloc)+1, 32)), app("bvuge", r, bvLit(0x90000000, 32)))
		if e.allocBase != "" {
			a = and(a, app("bvule", r, app("bvadd", e.allocBase, bvLit(uint64(e.loopAllocN[e.allocBase]), 32))))
		} else if e.lastLoopBase != "" {
			a = and(a, app("bvult", r, app("bvadd", e.lastLoopBase, bvLit(0x10000, 32))))
		} else {
			a = app("bvult", r, bvLit(uint64(0x80000000)+uint64(e.nalloc)+1, 32))
		}
		if len(e.sc.binders) == 0 {
			e.sc.assume(a)
		}
		e.sc.stampRef(r, e.sc.seq)
	}
	return r
}

func (e *Engine) storeLeaf(h Heap, p PtrVal, suffix, leaf, v string) {
	c := e.comp(p.Root, p.Path, suffix, leaf)
	cur := e.heapGet(h, c)
	ixs := idxTerms(p.Path)
	// nested store
	var build func(arr string, k int) string
	build = func(arr string, k int) string {
		if k == len(ixs) {
			return v
		}
		inner := sel(arr, ixs[k])
		return sto(arr, ixs[k], build(inner, k+1))
	}
	var nt string
	if e.needGuard(p.Base) {
		// store on a possibly not executed path: keep the old value unless the block is reached
		oldv := sel(cur, p.Base)
		for _, ix := range ixs {
			oldv = sel(oldv, ix)
		}
		v = ite(e.guard, v, oldv)
	}
	if len(ixs) == 0 {
		nt = sto(cur, p.Base, v)
	} else {
		nt = sto(cur, p.Base, build(sel(cur, p.Base), 0))
	}
	h[c.key] = e.sc.define("H_"+c.key, c.sort, nt)
	if !e.isFresh(p.Base) {
		e.dirty[c.key] = true
	}
}

// rawLoad selects component c at base and the given index terms (possibly fewer
// than c.nidx, yielding an inner array).
func (e *Engine) rawLoad(h Heap, c *component, base string, ixs []string) string {
	t := e.sc.selIdx(e.heapGet(h, c), base)
	for _, ix := range ixs {
		t = e.sc.selIdx(t, ix)
	}
	return t
}

func (e *Engine) rawStore(h Heap, c *component, base string, ixs []string, v string) {
	cur := e.heapGet(h, c)
	if e.needGuard(base) {
		oldv := sel(cur, base)
		for _, ix := range ixs {
			oldv = sel(oldv, ix)
		}
		v = ite(e.guard, v, oldv)
	}
	var build func(arr string, k int) string
	build = func(arr string, k int) string {
		if k == len(ixs) {
			return v
		}
		return sto(arr, ixs[k], build(sel(arr, ixs[k]), k+1))
	}
	h[c.key] = e.sc.define("H_"+c.key, c.sort, sto(cur, base, build(sel(cur, base), 0)))
	if !e.isFresh(base) {
		e.dirty[c.key] = true
	}
}

func (p PtrVal) field(i int, name string) PtrVal {
	np := append(append([]pathElem{}, p.Path...), pathElem{field: i, name: name})
	return PtrVal{Base: p.Base, Root: p.Root, Path: np}
}

func (p PtrVal) index(ix string) PtrVal {
	np := append(append([]pathElem{}, p.Path...), pathElem{field: -1, idx: ix})
	return PtrVal{Base: p.Base, Root: p.Root, Path: np}
}

// load reads a value of type t through pointer p.
func (e *Engine) load(h Heap, p PtrVal, t types.Type) Val {
	if at, ok := under(t).(*types.Array); ok {
		es, ok := scalarSort(at.Elem())
		if !ok {
			av := ArrayVal{}
			e.forLeaves(p.Root, append(append([]pathElem{}, p.Path...), pathElem{field: -1}), at.Elem(), func(path []pathElem, suffix, leaf string, lt types.Type) {
				c := e.comp(p.Root, path, suffix, leaf)
				av.Leaves = append(av.Leaves, e.sc.define("lda", arrSort(SI64, leaf), e.rawLoad(h, c, p.Base, idxTerms(p.Path))))
				av.Sorts = append(av.Sorts, leaf)
			})
			return av
		}
		// whole-array access shares the component used by element access
		c := e.comp(p.Root, append(append([]pathElem{}, p.Path...), pathElem{field: -1}), "", es)
		tm := e.sc.selIdx(e.heapGet(h, c), p.Base)
		for _, ix := range idxTerms(p.Path) {
			tm = e.sc.selIdx(tm, ix)
		}
		return Sc{e.sc.define("lda", arrSort(SI64, es), tm), arrSort(SI64, es)}
	}
	if s, ok := scalarSort(t); ok {
		return Sc{e.loadLeaf(h, p, "", s, s == SRef && bitsOf(t) == 0), s}
	}
	switch u := under(t).(type) {
	case *types.Struct:
		sv := StructVal{}
		for i := 0; i < u.NumFields(); i++ {
			sv.F = append(sv.F, e.load(h, p.field(i, u.Field(i).Name()), u.Field(i).Type()))
		}
		return sv
	case *types.Slice:
		sv := SliceVal{e.loadLeaf(h, p, ".arr", SRef, true), e.loadLeaf(h, p, ".off", SI64, false), e.loadLeaf(h, p, ".len", SI64, false)}
		if len(e.sc.binders) == 0 && !isBVLit(sv.Len) {
			// invariants of every Go slice value: 0 <= len (bounded by memory), nil has length 0
			e.sc.assume(and(app("bvsge", sv.Len, bvLit(0, 64)), app("bvslt", sv.Len, bvLit(1<<40, 64)), app("bvsge", sv.Off, bvLit(0, 64)), app("bvslt", sv.Off, bvLit(1<<40, 64)),
				implies(eq(sv.Arr, bvLit(0, 32)), eq(sv.Len, bvLit(0, 64)))))
		}
		return sv
	case *types.Interface:
		return IfaceVal{e.loadLeaf(h, p, ".tag", STag, false), e.loadLeaf(h, p, ".ref", SRef, true), e.loadLeaf(h, p, ".str", SStr, false), e.loadLeaf(h, p, ".bv", SI64, false)}
	case *types.Array:
		fail("load of array of non-scalar elements %s", t)
	}
	fail("load of %s", t)
	return nil
}

func (e *Engine) store(h Heap, p PtrVal, t types.Type, v Val) {
	if at, ok := under(t).(*types.Array); ok {
		es, ok := scalarSort(at.Elem())
		if !ok {
			av, ok := v.(ArrayVal)
			if !ok {
				fail("store of %T as array", v)
			}
			j := 0
			e.forLeaves(p.Root, append(append([]pathElem{}, p.Path...), pathElem{field: -1}), at.Elem(), func(path []pathElem, suffix, leaf string, lt types.Type) {
				c := e.comp(p.Root, path, suffix, leaf)
				e.rawStore(h, c, p.Base, idxTerms(p.Path), av.Leaves[j])
				j++
			})
			return
		}
		c := e.comp(p.Root, append(append([]pathElem{}, p.Path...), pathElem{field: -1}), "", es)
		cur := e.heapGet(h, c)
		ixs := idxTerms(p.Path)
		val := e.scalar(v).T
		if e.needGuard(p.Base) {
			oldv := sel(cur, p.Base)
			for _, ix := range ixs {
				oldv = sel(oldv, ix)
			}
			val = ite(e.guard, val, oldv)
		}
		var build func(arr string, k int) string
		build = func(arr string, k int) string {
			if k == len(ixs) {
				return val
			}
			return sto(arr, ixs[k], build(sel(arr, ixs[k]), k+1))
		}
		h[c.key] = e.sc.define("H_"+c.key, c.sort, sto(cur, p.Base, build(sel(cur, p.Base), 0)))
		if !e.isFresh(p.Base) {
			e.dirty[c.key] = true
		}
		return
	}
	if s, ok := scalarSort(t); ok {
		e.storeLeaf(h, p, "", s, e.scalar(v).T)
		return
	}
	switch u := under(t).(type) {
	case *types.Struct:
		sv, ok := v.(StructVal)
		if !ok {
			fail("store of %T as struct", v)
		}
		for i := 0; i < u.NumFields(); i++ {
			e.store(h, p.field(i, u.Field(i).Name()), u.Field(i).Type(), sv.F[i])
		}
		return
	case *types.Slice:
		sv, ok := v.(SliceVal)
		if !ok {
			fail("store of %T as slice", v)
		}
		e.storeLeaf(h, p, ".arr", SRef, sv.Arr)
		e.storeLeaf(h, p, ".off", SI64, sv.Off)
		e.storeLeaf(h, p, ".len", SI64, sv.Len)
		return
	case *types.Interface:
		iv, ok := v.(IfaceVal)
		if !ok {
			fail("store of %T as interface", v)
		}
		e.storeLeaf(h, p, ".tag", STag, iv.Tag)
		e.storeLeaf(h, p, ".ref", SRef, iv.Ref)
		e.storeLeaf(h, p, ".str", SStr, iv.Str)
		e.storeLeaf(h, p, ".bv", SI64, iv.BV)
		return
	}
	fail("store of %s", t)
}

// elemPtr is the pointer to element i of slice s with element type et.
func (e *Engine) elemPtr(s SliceVal, et types.Type, i string) PtrVal {
	ix := e.sc.define("ix", SI64, e.sc.addS(s.Off, i))
	return PtrVal{Base: s.Arr, Root: types.NewSlice(et), Path: []pathElem{{field: -1, idx: ix}}}
}

// alloc returns the reference of a newly allocated object. Outside loops it is
// a literal (one per allocation site execution in the acyclic unfolding). Inside a
// loop body it is loopbase+k, where loopbase is a symbol that is larger than every
// reference that exists when the iteration starts (so objects of earlier iterations
// and loop-carried references never alias this iteration's allocations).
func (e *Engine) alloc() string {
	if e.allocBase != "" {
		e.loopAllocN[e.allocBase]++
		t := app("bvadd", e.allocBase, bvLit(uint64(e.loopAllocN[e.allocBase]), 32))
		e.sc.fresh[t] = true
		e.sc.seq++
		e.sc.allocSeq[t] = e.sc.seq
		e.allocReach[t] = e.guard
		return t
	}
	e.nalloc++
	t := bvLit(uint64(0x80000000)+uint64(e.nalloc), 32)
	e.sc.fresh[t] = true
	e.sc.seq++
	e.sc.allocSeq[t] = e.sc.seq
	e.allocReach[t] = e.guard
	return t
}

func (e *Engine) isFresh(t string) bool { return e.sc.fresh[t] }

// needGuard: a store must be guarded by the reach condition of the current block
// unless it initialises an object allocated under that very condition.
func (e *Engine) needGuard(base string) bool {
	if e.guard == "true" {
		return false
	}
	if e.sc.fresh[base] && e.allocReach[base] == e.guard {
		return false
	}
	return true
}
