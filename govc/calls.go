package main

import (
	"go/constant"
	"go/token"
	"fmt"
	"go/types"
	"sort"
	"strings"

	"golang.org/x/tools/go/ssa"
)

func heapFingerprint(h Heap) string {
	var ks []string
	for k, v := range h {
		ks = append(ks, k+"="+v)
	}
	sort.Strings(ks)
	return strings.Join(ks, ";")
}

func (e *Engine) needStrOp(name string, args []string, res string) {
	e.sc.declareFun(name, args, res)
}

// litOf returns the Go string for a literal constant term, if it is one.
func (e *Engine) litOf(term string) (string, bool) {
	for lit, c := range e.lits {
		if c == term {
			return lit, true
		}
	}
	return "", false
}

func (e *Engine) litFactBinary(op, a, b, r string) {
	la, oka := e.litOf(a)
	lb, okb := e.litOf(b)
	if oka && okb && op == "gs_concat" {
		e.sc.assume(eq(r, e.strLit(la+lb)))
	}
}

func (e *Engine) litFactSub(s, lo, hi, r string) {
	ls, ok := e.litOf(s)
	if !ok {
		return
	}
	var l, h uint64
	if _, err := fmt.Sscanf(lo, "(_ bv%d 64)", &l); err != nil {
		return
	}
	if _, err := fmt.Sscanf(hi, "(_ bv%d 64)", &h); err != nil {
		return
	}
	if l <= h && h <= uint64(len(ls)) {
		e.sc.assume(eq(r, e.strLit(ls[l:h])))
	}
}

// unaryStrFacts emits, for every literal known so far, the concrete value of a
// unary string function (evaluated by running the real library function here).
func (e *Engine) unaryStrFacts(op string, f func(string) string) {
	if !e.hookKeys["u|"+op] {
		e.hookKeys["u|"+op] = true
		e.litHooks = append(e.litHooks, func() { e.unaryStrFacts(op, f) })
	}
	for i := 0; i < len(e.litOrder); i++ {
		lit := e.litOrder[i]
		key := op + "|" + lit
		if e.litFacts[key] {
			continue
		}
		e.litFacts[key] = true
		e.sc.assume(eq(app(op, e.lits[lit]), e.strLit(f(lit))))
	}
}

func (e *Engine) predStrFacts(op string, other string, f func(a, b string) bool) {
	lb, ok := e.litOf(other)
	if !ok {
		return
	}
	if !e.hookKeys["p|"+op+"|"+lb] {
		e.hookKeys["p|"+op+"|"+lb] = true
		e.litHooks = append(e.litHooks, func() { e.predStrFacts(op, other, f) })
	}
	for i := 0; i < len(e.litOrder); i++ {
		lit := e.litOrder[i]
		key := op + "|" + lit + "|" + lb
		if e.litFacts[key] {
			continue
		}
		e.litFacts[key] = true
		if f(lit, lb) {
			e.sc.assume(app(op, e.lits[lit], other))
		} else {
			e.sc.assume(not(app(op, e.lits[lit], other)))
		}
	}
}

// call handles every kind of call instruction. It returns the value and the
// reach condition after the call (false if the callee never returns).
func (e *Engine) call(fr *frame, ins ssa.Instruction, cc *ssa.CallCommon, reach string, heap Heap) (Val, string) {
	var args []Val
	for _, a := range cc.Args {
		args = append(args, e.operand(fr, a))
	}
	var resT types.Type
	if v, ok := ins.(ssa.Value); ok {
		resT = v.Type()
	}
	if cc.IsInvoke() {
		recv := e.operand(fr, cc.Value)
		return e.invoke(fr, ins, cc, recv, args, resT, reach, heap)
	}
	if b, ok := cc.Value.(*ssa.Builtin); ok {
		return e.builtin(fr, ins, b, cc, args, resT, reach, heap), reach
	}
	var fn *ssa.Function
	var bind []Val
	switch cv := e.operand(fr, cc.Value).(type) {
	case FuncVal:
		fn, bind = cv.Fn, cv.Bind
	default:
		// call through a function value that is not statically known: every function of the
		// repository with the same signature whose value is taken somewhere may be the callee;
		// the union of their (inferred) write sets is havocked, the result is unconstrained
		sig, _ := under(cc.Value.Type()).(*types.Signature)
		cands := e.addressTakenFuncs(sig)
		e.abstracted[fmt.Sprintf("call through function value at %s (%d possible callees, inferred frame)", e.posOf(ins.Pos()), len(cands))]++
		ws := &writeScanner{e: e, keys: map[string]bool{}, seen: map[string]bool{}}
		for _, f := range cands {
			ws.scanFn(f, nil)
		}
		for _, k := range append([]string{}, e.compOrder...) {
			if e.inModSet(ws.keys, k) {
				cp := e.comps[k]
				fresh := e.sc.declare("Hdyn_"+k, cp.sort)
				heap[k] = e.sc.define("Hd_"+k, cp.sort, ite(e.guard, fresh, e.heapGet(heap, cp)))
				e.dirty[k] = true
			}
		}
		e.pendingWrites = append(e.pendingWrites, ws.keys)
		return e.havocResult(resT, "dyncall"), reach
	}
	return e.callFunc(fr, ins, fn, args, bind, resT, reach, heap, cc)
}

func (e *Engine) havocResult(t types.Type, prefix string) Val {
	if t == nil {
		return nil
	}
	if tup, ok := t.(*types.Tuple); ok {
		if tup.Len() == 0 {
			return nil
		}
		var tv TupleVal
		for i := 0; i < tup.Len(); i++ {
			v := e.freshVal(tup.At(i).Type(), fmt.Sprintf("%s.r%d", prefix, i))
			e.assumeNotFuture(v, tup.At(i).Type())
			tv = append(tv, v)
		}
		return tv
	}
	v := e.freshVal(t, prefix)
	e.assumeNotFuture(v, t)
	return v
}

// assumeNotFuture: memory safety of Go for the results of a call that is not executed symbolically:
// a reference it returns denotes an object of the pre-state, an object allocated before the call,
// or an object the callee allocated - never an object this execution allocates later. Objects
// allocated by the callee can take any reference of the band above the numbered ones.
func (e *Engine) assumeNotFuture(v Val, t types.Type) {
	if len(e.sc.binders) > 0 {
		return
	}
	ref := func(r string) {
		if isBVLit(r) {
			return
		}
		a := or(app("bvule", r, bvLit(uint64(0x80000000)+uint64(e.nalloc), 32)), app("bvuge", r, bvLit(0x90000000, 32)))
		if e.allocBase != "" {
			n := app("bvadd", e.allocBase, bvLit(uint64(e.loopAllocN[e.allocBase]), 32))
			a = and(a, not(and(app("bvugt", r, n), app("bvult", r, app("bvadd", e.allocBase, bvLit(0x8000, 32))))))
		}
		e.sc.assume(a)
		e.sc.stampRef(r, e.sc.seq)
	}
	switch x := v.(type) {
	case Sc:
		if x.S == SRef && bitsOf(t) == 0 {
			ref(x.T)
		}
	case StructVal:
		if st, ok := under(t).(*types.Struct); ok {
			for i, f := range x.F {
				e.assumeNotFuture(f, st.Field(i).Type())
			}
		}
	case SliceVal:
		ref(x.Arr)
	case IfaceVal:
		ref(x.Ref)
	}
}

func fullName(fn *ssa.Function) string {
	s := fn.String()
	// strip type arguments of instantiations
	if i := strings.Index(s, "["); i >= 0 && fn.Origin() != nil {
		s = fn.Origin().String()
	}
	return s
}

// callRecord is the ghost record of the calls the function under contract makes to one callee
// (keyed by the callee's plain name): whether some call was executed, and the arguments and
// results of the last executed one. Read by vcCalled / vcArg / vcResult in clauses.
type callRecord struct {
	called string
	ret    Val
	resT   types.Type
	args   []Val
	argT   []types.Type
	inLoop bool
}

// callFunc wraps callFunc0 and keeps the ghost call log of the function under contract.
func (e *Engine) callFunc(fr *frame, ins ssa.Instruction, fn *ssa.Function, args []Val, bind []Val, resT types.Type, reach string, heap Heap, cc *ssa.CallCommon) (Val, string) {
	ret, r := e.callFunc0(fr, ins, fn, args, bind, resT, reach, heap, cc)
	if fr == nil || e.pure || e.inInit || e.root == nil || fr.fn != e.root || len(e.sc.binders) > 0 || strings.HasPrefix(fn.Name(), "vc") {
		return ret, r
	}
	name := fn.Name()
	if fn.Origin() != nil {
		name = fn.Origin().Name()
	}
	if e.callLog == nil {
		e.callLog = map[string]*callRecord{}
	}
	// a method is recorded under its plain name and under "Type.Method" (for functions under
	// contract that call two methods of the same name)
	keys := []string{name}
	if recv := fn.Signature.Recv(); recv != nil {
		t := recv.Type()
		if p, ok := t.(*types.Pointer); ok {
			t = p.Elem()
		}
		if n, ok := t.(*types.Named); ok {
			keys = append(keys, n.Obj().Name()+"."+name)
		}
	}
	inLoop := ins != nil && ins.Block() != nil && e.innermost(fr, ins.Block()) != nil
	// ... and under "name#k": the k-th call site of that callee in the function under contract, in
	// source order (for a function that calls the same callee at several places, some of them in loops)
	if ins != nil {
		var sites []token.Pos
		for _, b := range fr.fn.Blocks {
			for _, in := range b.Instrs {
				if ci, ok := in.(ssa.CallInstruction); ok {
					if f := ci.Common().StaticCallee(); f != nil && (f == fn || (f.Origin() != nil && f.Origin() == fn.Origin())) {
						sites = append(sites, in.Pos())
					}
				}
			}
		}
		sort.Slice(sites, func(a, b int) bool { return sites[a] < sites[b] })
		for k, p := range sites {
			if p == ins.Pos() {
				keys = append(keys, fmt.Sprintf("%s#%d", name, k))
			}
		}
	}
	for _, key := range keys {
		rec := &callRecord{called: reach, ret: ret, resT: resT, args: append([]Val{}, args...), inLoop: inLoop}
		for _, p := range fn.Params {
			rec.argT = append(rec.argT, p.Type())
		}
		if prev := e.callLog[key]; prev != nil && !rec.inLoop && !prev.inLoop && len(prev.args) == len(rec.args) {
			// a later call on another path: the record is the one of the call that was executed last
			rec.called = e.sc.define("called", SBool, or(prev.called, reach))
			merged := func() (ok bool) {
				defer func() {
					if r := recover(); r != nil {
						ok = false
					}
				}()
				if ret != nil && prev.ret != nil {
					rec.ret = e.iteVal(reach, ret, prev.ret)
				}
				for i := range rec.args {
					rec.args[i] = e.iteVal(reach, rec.args[i], prev.args[i])
				}
				return true
			}()
			if !merged {
				// values that cannot be merged (interior pointers): the record is unusable in clauses
				rec.inLoop = true
			}
		} else if prev != nil && len(prev.args) != len(rec.args) {
			// two different callees share this key (methods of the same name on different types):
			// the plain name is ambiguous and unusable, the qualified keys are not
			rec.inLoop = true
		}
		e.callLog[key] = rec
	}
	return ret, r
}

// usesCallLog: the clause text reads the ghost call log.
func usesCallLog(expr string) bool {
	return strings.Contains(expr, "vcResult[") || strings.Contains(expr, "vcCalled(") || strings.Contains(expr, "vcArg[")
}

// callLogOf: the record for the callee named by the constant string argument of a ghost call.
func (e *Engine) callLogOf(cc *ssa.CallCommon, ghost string) (*callRecord, string) {
	c, ok := cc.Args[0].(*ssa.Const)
	if !ok || c.Value == nil || c.Value.Kind() != constant.String {
		fail("%s needs a literal callee name", ghost)
	}
	name := constant.StringVal(c.Value)
	rec := e.callLog[name]
	if rec != nil && rec.inLoop {
		fail("%s(%q): the call is inside a loop, its values on different paths cannot be merged, or the name denotes two different callees (use Type.Method)", ghost, name)
	}
	return rec, name
}

func (e *Engine) callFunc0(fr *frame, ins ssa.Instruction, fn *ssa.Function, args []Val, bind []Val, resT types.Type, reach string, heap Heap, cc *ssa.CallCommon) (Val, string) {
	name := fullName(fn)
	if e.inInit && fn.Name() == "init" && fn != e.stack[0] {
		e.abstracted["init of "+fn.Pkg.Pkg.Path()]++
		return nil, reach
	}
	// ghost intrinsics
	baseName := fn.Name()
	if fn.Origin() != nil {
		baseName = fn.Origin().Name()
	}
	switch baseName {
	case "old":
		if fn.Pkg != nil && strings.HasPrefix(fn.Pkg.Pkg.Path(), repoModule) || fn.Origin() != nil && fn.Origin().Pkg != nil && strings.HasPrefix(fn.Origin().Pkg.Pkg.Path(), repoModule) {
			return e.evalOld(fr, cc.Args[0], heap), reach
		}
	case "forall", "exists":
		if fn.Pkg != nil && strings.HasPrefix(fn.Pkg.Pkg.Path(), repoModule) {
			return e.quantifier(fr, fn.Name(), args, heap), reach
		}
	case "forallKeys":
		if fn.Origin() != nil && fn.Origin().Pkg != nil && strings.HasPrefix(fn.Origin().Pkg.Pkg.Path(), repoModule) {
			return e.keyQuantifier(fr, cc, args, heap), reach
		}
	case "forallStrings":
		if fn.Pkg != nil && strings.HasPrefix(fn.Pkg.Pkg.Path(), repoModule) {
			// forallStrings(p): p holds for every string
			fv, ok := args[0].(FuncVal)
			if !ok {
				fail("forallStrings needs a function literal")
			}
			k := e.sc.freshName("ks")
			e.sc.binders = append(e.sc.binders, binder{k, SStr})
			savePure := e.pure
			e.pure = true
			res := e.execFunction(fv.Fn, []Val{Sc{k, SStr}}, fv.Bind, "true", heap.clone())
			e.pure = savePure
			body := e.scalar(res.ret).T
			e.sc.binders = e.sc.binders[:len(e.sc.binders)-1]
			return Sc{e.sc.define("qs", SBool, fmt.Sprintf("(forall ((%s %s)) %s)", k, SStr, body)), SBool}, reach
		}
	case "vcIter":
		return e.iterValue(fr, ins), reach
	case "vcSortFact":
		// ghost lemma instance: true (it is an instance of what the sort model assumes), written out so
		// that the solver has the instance at hand instead of having to find it
		return Sc{e.sc.define("sortfact", SBool, e.sortFact(e.scalar(args[0]).T, e.scalar(args[1]).T)), SBool}, reach
	case "vcSortPerm":
		// ghost: position, before the most recent sort call, of the element that is at position i
		// of the sorted range afterwards (identity if nothing was sorted)
		if e.lastSortP == "" {
			return args[0], reach
		}
		return Sc{e.sc.define("perm", SI64, sel(e.lastSortP, e.scalar(args[0]).T)), SI64}, reach
	case "vcSame":
		if a, ok := args[0].(IfaceVal); ok {
			b := args[1].(IfaceVal)
			return Sc{and(eq(a.Tag, b.Tag), eq(a.Ref, b.Ref)), SBool}, reach
		}
		if a, ok := args[0].(SliceVal); ok {
			b := args[1].(SliceVal)
			return Sc{and(eq(a.Arr, b.Arr), eq(a.Off, b.Off), eq(a.Len, b.Len)), SBool}, reach
		}
		return Sc{eq(e.scalar(args[0]).T, e.scalar(args[1]).T), SBool}, reach
	case "vcWriteCount":
		t := bvLit(0, 64)
		if e.calleeWrites != "" {
			// inside the postcondition of a callee taken by contract: the callee's own writes
			return Sc{e.calleeWrites, SI64}, reach
		}
		for _, w := range e.ghostWrites {
			n := bvLit(1, 64)
			if w.n != "" {
				n = w.n
			}
			t = app("bvadd", t, ite(w.cond, n, bvLit(0, 64)))
		}
		return Sc{e.sc.define("wcount", SI64, t), SI64}, reach
	case "vcWritten":
		if len(e.ghostWrites) == 0 {
			return e.zeroVal(types.NewSlice(types.Typ[types.Uint8])), reach
		}
		var v Val = e.ghostWrites[len(e.ghostWrites)-1].data
		for i := len(e.ghostWrites) - 2; i >= 0; i-- {
			v = e.iteVal(e.ghostWrites[i].cond, e.ghostWrites[i].data, v)
		}
		return v, reach
	case "vcExitCode":
		return Sc{e.curExitCode, SI64}, reach
	case "vcPrinted":
		t := "false"
		for _, ev := range e.ghostEvents {
			if ev[0] == "print" {
				t = or(t, ev[1])
			}
		}
		return Sc{e.sc.define("printed", SBool, t), SBool}, reach
	case "vcCalled":
		// ghost: the function under contract executed a call to the named callee
		rec, _ := e.callLogOf(cc, "vcCalled")
		if rec == nil {
			return Sc{"false", SBool}, reach
		}
		return Sc{rec.called, SBool}, reach
	case "vcResult", "vcArg":
		// ghost: result / argument number idx of the last executed call to the named callee
		rec, cname := e.callLogOf(cc, baseName)
		ic, ok := cc.Args[1].(*ssa.Const)
		if !ok {
			fail("%s needs a literal index", baseName)
		}
		idx := int(ic.Int64())
		want := fn.Signature.Results().At(0).Type()
		if rec == nil {
			fail("%s(%q): the function under contract makes no such call", baseName, cname)
		}
		var v Val
		var vt types.Type
		if baseName == "vcArg" {
			if idx < 0 || idx >= len(rec.args) {
				fail("vcArg(%q, %d): no such argument", cname, idx)
			}
			v, vt = rec.args[idx], rec.argT[idx]
		} else {
			if tv, ok := rec.ret.(TupleVal); ok {
				if idx < 0 || idx >= len(tv) {
					fail("vcResult(%q, %d): no such result", cname, idx)
				}
				v, vt = tv[idx], rec.resT.(*types.Tuple).At(idx).Type()
			} else {
				if idx != 0 || rec.ret == nil {
					fail("vcResult(%q, %d): no such result", cname, idx)
				}
				v, vt = rec.ret, rec.resT
			}
		}
		if !types.Identical(vt, want) {
			fail("%s(%q, %d) has type %s, the clause asks for %s", baseName, cname, idx, vt, want)
		}
		return v, reach
	case "vcCallFailed":
		if e.failedTerm == "" {
			return Sc{"false", SBool}, reach
		}
		return Sc{e.failedTerm, SBool}, reach
	case "vcLoggedError":
		if e.calleeLogFlag != "" {
			return Sc{e.calleeLogFlag, SBool}, reach
		}
		if e.loggedTerm == "" {
			return Sc{"false", SBool}, reach
		}
		return Sc{e.loggedTerm, SBool}, reach
	case "implies":
		if fn.Pkg != nil && strings.HasPrefix(fn.Pkg.Pkg.Path(), repoModule) {
			return Sc{implies(e.scalar(args[0]).T, e.scalar(args[1]).T), SBool}, reach
		}
	}
	if strings.HasPrefix(fn.Name(), "vcF_") {
		// final clause: an assertion at this point of the function under verification
		if e.pure || e.rootC == nil || len(e.stack) == 0 || e.stack[0] != e.root {
			return Sc{"true", SBool}, reach
		}
		var cl *Clause
		for _, c := range e.rootC.byKind("final") {
			if c.Pred == fn.Name() {
				cl = c
			}
		}
		if cl == nil {
			return Sc{"true", SBool}, reach
		}
		savePure, saveGuard := e.pure, e.guard
		e.pure, e.guard = true, "true"
		res := e.execFunction(fn, args, nil, "true", heap.clone())
		e.pure, e.guard = savePure, saveGuard
		e.oblige(&Obligation{
			Name:   e.rootName() + ".final." + cl.Label,
			Kind:   "ensures",
			Clause: cl.Expr + "   [asserted before the final return]",
			Goal:   implies(reach, e.scalar(res.ret).T),
			Pos:    fmt.Sprintf("%s:%d", strings.TrimPrefix(cl.File, e.w.RepoDir+"/"), cl.Line),
			Func:   e.rootName(),
			Using:  cl.Using,
		})
		return Sc{"true", SBool}, reach
	}
	if strings.HasPrefix(fn.Name(), "vcI_") || strings.HasPrefix(fn.Name(), "vcD_") {
		// ghost calls are consumed by the loop machinery
		if resT != nil {
			if b, ok := under(resT).(*types.Basic); ok && b.Info()&types.IsBoolean != 0 {
				return Sc{"true", SBool}, reach
			}
			return Sc{bvLit(0, 64), SI64}, reach
		}
		return nil, reach
	}
	// call-site clauses of the function under verification
	if e.rootC != nil && !e.pure && len(e.stack) >= 1 && e.stack[0] == e.root {
		for _, cl := range e.rootC.byKind("calls") {
			if !calleeMatches(name, cl.Callee) {
				continue
			}
			pf := e.w.Preds[e.rootC.Pkg+"."+cl.Pred]
			if pf == nil || len(pf.Params) != len(e.rootArgs)+len(args) {
				continue
			}
			t := e.evalPred(pf, append(append([]Val{}, e.rootArgs...), args...), heap, nil)
			e.oblige(&Obligation{
				Name:   fmt.Sprintf("%s.calls.%s", e.rootName(), cl.Label),
				Kind:   "ensures",
				Clause: cl.Expr,
				Goal:   implies(reach, t),
				Pos:    e.posOf(ins.Pos()),
				Func:   e.rootName(),
			})
			e.callsSeen[cl.Label]++
		}
	}
	if v, r, ok := e.libModel(fr, ins, name, fn, args, resT, reach, heap); ok {
		return v, r
	}
	if v, r, ok := e.loModel(fr, ins, name, fn, args, resT, reach, heap); ok {
		return v, r
	}
	if v, r, ok := e.externalModel(fr, ins, name, fn, args, resT, reach, heap); ok {
		return v, r
	}
	// contract?
	if c := e.w.contractFor(fn); c != nil && len(c.byKind("ensures")) > 0 && !c.Options["inline"] && fn != e.root {
		return e.callByContract(fr, ins, fn, c, args, resT, reach, heap)
	}
	if fn == e.root && len(e.stack) > 0 {
		if c := e.w.contractFor(fn); c != nil {
			return e.callByContract(fr, ins, fn, c, args, resT, reach, heap)
		}
	}
	if len(fn.Blocks) == 0 || !e.inlinable(fn) {
		e.abstracted[name]++
		return e.havocResult(resT, "ext_"+fn.Name()), reach
	}
	if why := e.cannotInline(fn); why != "" {
		// a repository function without contract that cannot be inlined (loops without
		// invariants, recursion): its result is unconstrained and every heap component it
		// may write in pre-existing objects (syntactic analysis of its body and callees) is
		// havocked. Its panic sites are not analysed here.
		e.abstracted[name+" (inferred frame: "+why+")"]++
		keys := e.writeSetOfFunc(fn)
		for _, k := range append([]string{}, e.compOrder...) {
			if e.inModSet(keys, k) {
				cp := e.comps[k]
				fresh := e.sc.declare("Habs_"+k, cp.sort)
				heap[k] = e.sc.define("Ha_"+k, cp.sort, ite(e.guard, fresh, e.heapGet(heap, cp)))
				e.dirty[k] = true
			}
		}
		e.pendingWrites = append(e.pendingWrites, keys)
		return e.havocResult(resT, "abs_"+fn.Name()), reach
	}
	if e.pure && e.onStack(fn) {
		// recursive spec function: an uninterpreted application (its defining equation is
		// emitted once per outermost call, see below)
		return e.recApp(fn, args, resT, heap), reach
	}
	if e.pure && e.isRecursive(fn) && len(e.sc.binders) >= 0 {
		r := e.recApp(fn, args, resT, heap)
		key := "unfold|" + fmt.Sprint(r)
		if !e.litFacts[key] {
			e.litFacts[key] = true
			e.inlined[name+" (recursive spec function: unfolded once per call)"]++
			body := e.execFunction(fn, args, bind, "true", heap)
			e.assumeEqVal(r, body.ret, resT)
		}
		return r, reach
	}
	e.inlined[name]++
	// memoise pure spec functions on identical arguments and heap
	memoKey := ""
	if e.pure && strings.HasPrefix(fn.Name(), "spec") && len(e.sc.binders) == 0 {
		memoKey = fmt.Sprintf("%p|%v|%v", fn, args, heapFingerprint(heap))
		if r, ok := e.memo[memoKey]; ok {
			return r.ret, reach
		}
	}
	callReach := reach
	if e.pure {
		// ghost/spec code: values must not depend on the calling context
		callReach = "true"
	}
	res := e.execFunction(fn, args, bind, callReach, heap)
	if memoKey != "" {
		e.memo[memoKey] = res
	}
	if e.pure {
		res.reach = reach
	}
	// the heap is shared: the callee's (guarded) stores are already in it
	return res.ret, res.reach
}

// inlinable: functions of the repository and small helpers of samber/lo are
// inlined when they carry no contract; everything else is abstracted.
func (e *Engine) inlinable(fn *ssa.Function) bool {
	pkg := fn.Pkg
	if pkg == nil && fn.Origin() != nil {
		pkg = fn.Origin().Pkg
	}
	if pkg == nil && fn.Parent() != nil {
		p := fn.Parent()
		for p.Parent() != nil {
			p = p.Parent()
		}
		pkg = p.Pkg
		if pkg == nil && p.Origin() != nil {
			pkg = p.Origin().Pkg
		}
	}
	if pkg == nil {
		return false
	}
	path := pkg.Pkg.Path()
	if strings.HasPrefix(path, repoModule) {
		if strings.HasSuffix(path, "/internal/gen") {
			return false // pigeon-generated parser
		}
		if strings.HasSuffix(path, "/pkg/ng_operand") && (strings.HasPrefix(fn.Name(), "parse") && fn.Signature.Recv() != nil) {
			return false
		}
		return true
	}
	switch path {
	case "github.com/samber/lo":
		return true
	}
	return false
}

func (e *Engine) callByContract(fr *frame, ins ssa.Instruction, fn *ssa.Function, c *Contract, args []Val, resT types.Type, reach string, heap Heap) (Val, string) {
	e.usedContracts[c.id()]++
	site := e.posOf(ins.Pos())
	for _, cl := range c.byKind("requires") {
		if e.pure || isAssumedLabel(cl.Label) {
			// ghost code generates no obligations; requires[A<n>] clauses are global assumptions
			// (DESIGN.md section 6) that are assumed by the callee and not checked at call sites
			continue
		}
		pf := e.w.Preds[c.Pkg+"."+cl.Pred]
		goal := e.evalPred(pf, args, heap, nil)
		e.oblige(&Obligation{
			Name:   fmt.Sprintf("%s.call.%s.requires.%s", e.rootName(), c.Func, cl.Label),
			Kind:   "requires-at-call",
			Clause: cl.Expr,
			Goal:   implies(reach, goal),
			Pos:    site,
			Func:   e.rootName(),
			Using:  cl.Using, // names of the caller's labelled hypotheses (by convention shared between the two contracts)
		})
	}
	// havoc what the callee may assign (frame), then assume its ensures; old(...) in them
	// denotes the state just before the call
	beforeCall := heap.clone()
	e.havocAssigns(c, fn, args, heap)
	var res Val
	if in := e.pureIfaceFor(fn); in != nil {
		// the concrete method is an implementation of a pure interface method: its results
		// are that interface function applied to the receiver boxed as an interface value
		rt := fn.Signature.Recv().Type()
		res = e.ifacePureResult(in, fn.Name(), e.makeIface(args[0], rt), in, args[1:], fn.Signature, resT)
	} else if c.Options["pure"] {
		// a pure function: its results are a function of its arguments and of the heap it
		// is called in (identified by a fingerprint of the current heap terms)
		res = e.pureResult(fn, args, resT, heap)
	} else {
		res = e.havocResult(resT, "res_"+fn.Name())
	}
	var resList []Val
	if tv, ok := res.(TupleVal); ok {
		resList = tv
	} else if res != nil {
		resList = []Val{res}
	}
	if c.Options["failure-is-event"] && !e.pure && len(e.sc.binders) == 0 && len(resList) > 0 {
		// ghost state "a call of such a function has returned an error": read by vcCallFailed()
		if iv, ok := resList[len(resList)-1].(IfaceVal); ok {
			cur := e.failedTerm
			if cur == "" {
				cur = "false"
			}
			e.failedTerm = e.sc.define("failed", SBool, or(cur, and(reach, not(eq(iv.Tag, bvLit(0, 16))))))
		}
	}
	pre := heap // callee post-state == caller heap after havoc
	// vcLoggedError() inside the callee's postconditions speaks about the callee's diagnostics:
	// a fresh flag, recorded afterwards as a diagnostic event of the caller
	calleeLogged := e.sc.declare("callee_logged", SBool)
	saveFlag := e.calleeLogFlag
	e.calleeLogFlag = calleeLogged
	// likewise vcWriteCount() inside the callee's postconditions counts the callee's own writes to
	// files: a fresh non-negative number, added afterwards to the caller's count
	saveCW := e.calleeWrites
	cw := ""
	for _, cl := range c.byKind("ensures") {
		if strings.Contains(cl.Expr, "vcWriteCount()") {
			cw = e.sc.declare("callee_writes", SI64)
			e.sc.assume(and(app("bvsge", cw, bvLit(0, 64)), app("bvsle", cw, bvLit(1<<20, 64))))
			break
		}
	}
	e.calleeWrites = cw
	defer func() {
		e.calleeLogFlag = saveFlag
		e.ghostEvent("logerror", and(reach, calleeLogged), "")
		e.calleeWrites = saveCW
		if cw != "" && !e.pure && len(e.sc.binders) == 0 {
			e.ghostWrites = append(e.ghostWrites, ghostWriteRec{cond: reach, n: cw})
		}
	}()
	for _, cl := range c.byKind("ensures") {
		if usesCallLog(cl.Expr) || strings.HasPrefix(cl.Label, "I.") {
			// a clause about the calls the callee makes internally (ghost call log) is proved on the
			// callee; it says nothing a caller could use. Likewise a clause labelled "I.<x>" (internal):
			// proved on the callee, deliberately not handed to callers (quantified facts no caller needs)
			continue
		}
		pf := e.w.Preds[c.Pkg+"."+cl.Pred]
		all := append(append([]Val{}, args...), resList...)
		t := e.evalPred(pf, all, pre, beforeCall)
		// a clause with recorded findings is only known to hold outside their regions
		var regions []string
		full := c.Func + ".ensures." + cl.Label
		for _, f := range e.w.Findings.Findings {
			if !(f.Obligation == full || strings.HasPrefix(full, f.Obligation+".")) || !strings.HasSuffix(c.Pkg, f.Pkg) {
				continue
			}
			if kp := e.w.Preds[c.Pkg+"."+f.Pred]; kp != nil {
				regions = append(regions, e.evalPred(kp, all, pre, beforeCall))
			}
		}
		short := c.Func
		if i := strings.LastIndex(short, "."); i >= 0 {
			short = short[i+1:]
		}
		e.sc.assumeTagged(short+"."+cl.Label, implies(and(reach, not(or(regions...))), t))
	}
	return res, reach
}

// havocAssigns: a contract without an assigns clause assigns nothing that the
// engine models (frame obligations check this on the callee's own verification).
// assignsItem splits "param->Type.field" into its designator and pattern ("" when the item
// is a plain type-level pattern).
func assignsItem(item string) (param, pat string) {
	if i := strings.Index(item, "->"); i > 0 {
		return strings.TrimSpace(item[:i]), strings.TrimSpace(item[i+2:])
	}
	return "", item
}

// paramRef: the reference (object identity) of the argument passed for parameter name.
func (e *Engine) paramRef(fn *ssa.Function, args []Val, name string) (string, bool) {
	for i, p := range fn.Params {
		if p.Name() == name && i < len(args) {
			switch x := args[i].(type) {
			case Sc:
				if x.S == SRef {
					return x.T, true
				}
			case PtrVal:
				if len(x.Path) == 0 {
					return x.Base, true
				}
			case SliceVal:
				return x.Arr, true
			}
		}
	}
	return "", false
}

func (e *Engine) havocAssigns(c *Contract, fn *ssa.Function, args []Val, heap Heap) {
	for _, cl := range c.byKind("assigns") {
		for _, item := range splitTop(cl.Expr, ',') {
			item = strings.TrimSpace(item)
			if item == "" || item == "nothing" {
				continue
			}
			// item is a heap component key pattern (Type.field), optionally restricted to the
			// object a parameter refers to (param->Type.field)
			pname, pat := assignsItem(item)
			ref, okRef := "", false
			if pname != "" {
				ref, okRef = e.paramRef(fn, args, pname)
			}
			for _, k := range e.compOrder {
				if componentMatches(k, pat) {
					cp := e.comps[k]
					fresh := e.sc.declare("Hhavoc_"+k, cp.sort)
					cur := e.heapGet(heap, cp)
					if okRef {
						heap[k] = e.sc.define("Hh_"+k, cp.sort, sto(cur, ref, ite(e.guard, sel(fresh, ref), sel(cur, ref))))
						if !e.isFresh(ref) {
							e.dirty[k] = true
						}
					} else {
						heap[k] = e.sc.define("Hh_"+k, cp.sort, ite(e.guard, fresh, cur))
						e.dirty[k] = true
					}
				}
			}
		}
	}
}

func componentMatches(key, pat string) bool {
	// key looks like "pkg/path.Type.field.sub[]..." ; pattern "Type.field" matches a suffix
	// after the last '/' of the package path
	short := key
	if i := strings.LastIndex(short, "/"); i >= 0 {
		short = short[i+1:]
	}
	if j := strings.Index(short, "."); j >= 0 {
		short = short[j+1:] // drop package name
	}
	return short == pat || strings.HasPrefix(short, pat+".") || strings.HasPrefix(short, pat+"[") || strings.HasPrefix(short, pat+"#")
}

// evalPred translates a predicate/spec function on the given arguments in pure
// mode and returns its boolean (or scalar) result term.
func (e *Engine) evalPred(pf *ssa.Function, args []Val, heap Heap, old Heap) string {
	savePure := e.pure
	e.pure = true
	saveOld := e.oldHeap
	saveGuard := e.guard
	e.guard = "true"
	if old != nil {
		e.oldHeap = old
	}
	h := heap.clone()
	res := e.execFunction(pf, args, nil, "true", h)
	e.pure = savePure
	e.oldHeap = saveOld
	e.guard = saveGuard
	return e.scalar(res.ret).T
}

// evalOld re-evaluates the pure expression tree that computes v in the entry
// heap of the function under verification.
func (e *Engine) evalOld(fr *frame, v ssa.Value, curHeap Heap) Val {
	if e.oldHeap == nil {
		fail("old() used outside a postcondition")
	}
	memo := map[ssa.Value]Val{}
	var ev func(v ssa.Value) Val
	ev = func(v ssa.Value) Val {
		if r, ok := memo[v]; ok {
			return r
		}
		var r Val
		switch x := v.(type) {
		case *ssa.Parameter, *ssa.Const, *ssa.Function, *ssa.Global, *ssa.FreeVar:
			r = e.operand(fr, v)
		case *ssa.Alloc:
			// a variable cell of the predicate function itself (captured by a closure)
			r = e.operand(fr, v)
		case *ssa.UnOp:
			if x.Op.String() == "*" {
				pv := e.asPtr(ev(x.X), x.X.Type())
				h := e.oldHeap
				switch x.X.(type) {
				case *ssa.Alloc, *ssa.FreeVar:
					// predicate-local variable cells are not program state: read them now
					h = curHeap
				}
				r = e.load(h, pv, x.Type())
			} else {
				sub := &frame{fn: fr.fn, vals: map[ssa.Value]Val{x.X: ev(x.X)}}
				r = e.unop(sub, x, "true", e.oldHeap)
			}
		case *ssa.FieldAddr:
			pv := e.asPtr(ev(x.X), x.X.Type())
			st := under(x.X.Type().(*types.Pointer).Elem()).(*types.Struct)
			r = pv.field(x.Field, st.Field(x.Field).Name())
		case *ssa.Field:
			r = ev(x.X).(StructVal).F[x.Field]
		case *ssa.IndexAddr:
			sub := &frame{fn: fr.fn, vals: map[ssa.Value]Val{x.X: ev(x.X), x.Index: ev(x.Index)}}
			r = e.indexAddr(sub, x, "true")
		case *ssa.BinOp:
			sub := &frame{fn: fr.fn, vals: map[ssa.Value]Val{x.X: ev(x.X), x.Y: ev(x.Y)}}
			r = e.binop(sub, x, "true")
		case *ssa.Convert:
			sub := &frame{fn: fr.fn, vals: map[ssa.Value]Val{x.X: ev(x.X)}}
			r = e.convert(sub, x, e.oldHeap.clone())
		case *ssa.ChangeType:
			r = ev(x.X)
		case *ssa.Lookup:
			sub := &frame{fn: fr.fn, vals: map[ssa.Value]Val{x.X: ev(x.X), x.Index: ev(x.Index)}}
			r = e.lookup(sub, x, "true", e.oldHeap)
		case *ssa.Extract:
			r = ev(x.Tuple).(TupleVal)[x.Index]
		case *ssa.Call:
			sub := &frame{fn: fr.fn, vals: map[ssa.Value]Val{}}
			for _, a := range x.Call.Args {
				sub.vals[a] = ev(a)
			}
			if !x.Call.IsInvoke() {
				if _, isB := x.Call.Value.(*ssa.Builtin); !isB {
					if _, isF := x.Call.Value.(*ssa.Function); !isF {
						sub.vals[x.Call.Value] = ev(x.Call.Value)
					}
				}
			}
			h := e.oldHeap.clone()
			save := e.pure
			e.pure = true
			r, _ = e.call(sub, x, &x.Call, "true", h)
			e.pure = save
		case *ssa.Slice:
			sub := &frame{fn: fr.fn, vals: map[ssa.Value]Val{x.X: ev(x.X)}}
			if x.Low != nil {
				sub.vals[x.Low] = ev(x.Low)
			}
			if x.High != nil {
				sub.vals[x.High] = ev(x.High)
			}
			save := e.pure
			e.pure = true
			r = e.sliceOp(sub, x, "true", e.oldHeap.clone())
			e.pure = save
		default:
			fail("old(): unsupported expression node %T", v)
		}
		memo[v] = r
		return r
	}
	return ev(v)
}

// quantifier translates forall(lo, hi, func(k int) bool {...}) into an SMT
// quantifier over a 64-bit index.
func (e *Engine) quantifier(fr *frame, kind string, args []Val, heap Heap) Val {
	lo, hi := e.scalar(args[0]).T, e.scalar(args[1]).T
	fv, ok := args[2].(FuncVal)
	if !ok {
		fail("%s needs a function literal", kind)
	}
	if l, ok := e.sc.lit(lo); ok {
		if h, ok := e.sc.lit(hi); ok {
			lv, _, _ := bvLitVal(l)
			hv, _, _ := bvLitVal(h)
			if int64(hv)-int64(lv) <= 32 && int64(hv)-int64(lv) >= 0 {
				// a small constant range: the quantifier is a finite conjunction / disjunction
				var parts []string
				savePure := e.pure
				e.pure = true
				for x := int64(lv); x < int64(hv); x++ {
					r := e.execFunction(fv.Fn, []Val{Sc{bvLit(uint64(x), 64), SI64}}, fv.Bind, "true", heap.clone())
					parts = append(parts, e.scalar(r.ret).T)
				}
				e.pure = savePure
				if kind == "forall" {
					return Sc{e.sc.define("qc", SBool, and(parts...)), SBool}
				}
				return Sc{e.sc.define("qc", SBool, or(parts...)), SBool}
			}
		}
	}
	k := e.sc.freshName("k")
	e.sc.binders = append(e.sc.binders, binder{k, SI64})
	savePure := e.pure
	e.pure = true
	res := e.execFunction(fv.Fn, []Val{Sc{k, SI64}}, fv.Bind, "true", heap.clone())
	e.pure = savePure
	body := e.scalar(res.ret).T
	rng := and(app("bvsle", lo, k), app("bvslt", k, hi))
	e.sc.binders = e.sc.binders[:len(e.sc.binders)-1]
	var t string
	if kind == "forall" {
		t = fmt.Sprintf("(forall ((%s %s)) %s)", k, SI64, implies(rng, body))
	} else {
		t = fmt.Sprintf("(exists ((%s %s)) %s)", k, SI64, and(rng, body))
	}
	return Sc{e.sc.define("q", SBool, t), SBool}
}

// keyQuantifier: forallKeys(m, p) - p holds for every key present in map m.
func (e *Engine) keyQuantifier(fr *frame, cc *ssa.CallCommon, args []Val, heap Heap) Val {
	mt, ok := under(cc.Args[0].Type()).(*types.Map)
	if !ok {
		fail("forallKeys needs a map")
	}
	fv, ok := args[1].(FuncVal)
	if !ok {
		fail("forallKeys needs a function literal")
	}
	ks := mapKeySort(mt)
	m := e.scalar(args[0]).T
	mc := e.mapComponents(mt)
	k := e.sc.freshName("kk")
	e.sc.binders = append(e.sc.binders, binder{k, ks})
	savePure := e.pure
	e.pure = true
	res := e.execFunction(fv.Fn, []Val{Sc{k, ks}}, fv.Bind, "true", heap.clone())
	e.pure = savePure
	body := e.scalar(res.ret).T
	e.sc.binders = e.sc.binders[:len(e.sc.binders)-1]
	present := and(not(eq(m, bvLit(0, 32))), sel(sel(e.heapGet(heap, mc.present), m), k))
	return Sc{e.sc.define("qk", SBool, fmt.Sprintf("(forall ((%s %s)) %s)", k, ks, implies(present, body))), SBool}
}

func (e *Engine) invoke(fr *frame, ins ssa.Instruction, cc *ssa.CallCommon, recv Val, args []Val, resT types.Type, reach string, heap Heap) (Val, string) {
	mname := cc.Method.Name()
	iv, _ := recv.(IfaceVal)
	e.panicSite(fr, ins, reach, not(eq(iv.Tag, bvLit(0, 16))), "nil-interface-call")
	// error.Error(): opaque string
	if mname == "Error" && cc.Method.Type().(*types.Signature).Params().Len() == 0 {
		e.needStrOp("err.msg", []string{SRef}, SStr)
		return Sc{app("err.msg", iv.Ref), SStr}, reach
	}
	// interface with a single implementation in the repository: resolve statically
	it := cc.Value.Type()
	impls := e.implementations(it)
	if len(impls) == 1 {
		t := impls[0]
		ms := e.w.Prog.MethodSets.MethodSet(t)
		sel := ms.Lookup(cc.Method.Pkg(), mname)
		if sel != nil {
			fn := e.w.Prog.MethodValue(sel)
			if fn != nil {
				e.sc.assume(implies(reach, or(eq(iv.Tag, bvLit(0, 16)), eq(iv.Tag, e.tagOf(t)))))
				rv := e.unboxIface(iv, t)
				if sv, ok := rv.(Sc); ok && sv.S == SRef {
					e.sc.assume(implies(and(reach, not(eq(iv.Tag, bvLit(0, 16)))), not(eq(sv.T, bvLit(0, 32)))))
					e.warnOnce("interface values are assumed never to hold typed nil pointers")
				}
				return e.callFunc(fr, ins, fn, append([]Val{rv}, args...), nil, resT, reach, heap, cc)
			}
		}
	}
	// a contract on the interface method itself (e.g. "(Exp).Eval"): assumed for every implementation
	if named, ok := cc.Value.Type().(*types.Named); ok && named.Obj().Pkg() != nil {
		id := named.Obj().Pkg().Path() + ".(" + named.Obj().Name() + ")." + mname
		if c := e.w.Contracts[id]; c != nil && c.Broken == "" {
			e.usedContracts[id+" (interface contract, assumed for all implementations)"]++
			if c.Options["pure"] {
				// the value depends on the receiver and the arguments only: the state such a method
				// reads (the expression tree, the environment's tables) is not written by the
				// functions that call it under contract (their frame obligations show that). The
				// results are applications of uninterpreted functions to the argument values.
				return e.ifacePureResult(named, mname, recv, cc.Value.Type(), args, cc.Method.Type().(*types.Signature), resT), reach
			}
		}
	}
	e.abstracted["invoke "+cc.Method.FullName()]++
	return e.havocResult(resT, "inv_"+mname), reach
}

// implementations lists the named types of the repository (T or *T) that
// implement interface type it.
func (e *Engine) implementations(it types.Type) []types.Type {
	iface, ok := under(it).(*types.Interface)
	if !ok || iface.NumMethods() == 0 {
		return nil
	}
	var res []types.Type
	for path, tp := range e.w.Types {
		if !strings.HasPrefix(path, repoModule) {
			continue
		}
		sc := tp.Scope()
		for _, n := range sc.Names() {
			tn, ok := sc.Lookup(n).(*types.TypeName)
			if !ok || tn.IsAlias() {
				continue
			}
			if _, isI := under(tn.Type()).(*types.Interface); isI {
				continue
			}
			if types.Implements(tn.Type(), iface) {
				res = append(res, tn.Type())
			} else if types.Implements(types.NewPointer(tn.Type()), iface) {
				res = append(res, types.NewPointer(tn.Type()))
			}
		}
	}
	return res
}

func (e *Engine) iterValue(fr *frame, ins ssa.Instruction) Val {
	// number of completed iterations of the innermost enclosing range loop: the
	// incremented range index computed in the loop header
	b := ins.Block()
	li := e.innermost(fr, b)
	if li == nil {
		fail("vcIter outside a loop")
	}
	for _, i := range li.header.Instrs {
		if phi, ok := i.(*ssa.Phi); ok && phi.Comment == "rangeindex" {
			for _, j := range li.header.Instrs {
				if bo, ok := j.(*ssa.BinOp); ok && bo.X == phi {
					return e.operand(fr, bo)
				}
			}
		}
	}
	fail("'iter' used in a loop that is not a range loop over a slice")
	return nil
}

// ---- builtins ----

func (e *Engine) builtin(fr *frame, ins ssa.Instruction, b *ssa.Builtin, cc *ssa.CallCommon, args []Val, resT types.Type, reach string, heap Heap) Val {
	switch b.Name() {
	case "len", "cap":
		switch x := args[0].(type) {
		case SliceVal:
			return Sc{x.Len, SI64}
		case Sc:
			t := cc.Args[0].Type()
			if isStringT(t) {
				l := e.sc.define("slen", SI64, app("gs_len", x.T))
				return Sc{l, SI64}
			}
			if mt, ok := under(t).(*types.Map); ok {
				_ = mt
				e.needStrOp("map.len", []string{SRef}, SI64)
				return Sc{app("map.len", x.T), SI64}
			}
			if at, ok := under(t).(*types.Array); ok {
				return Sc{bvLit(uint64(at.Len()), 64), SI64}
			}
		case PtrVal:
			if pt, ok := under(cc.Args[0].Type()).(*types.Pointer); ok {
				if at, ok := under(pt.Elem()).(*types.Array); ok {
					return Sc{bvLit(uint64(at.Len()), 64), SI64}
				}
			}
		}
		fail("len of %T", args[0])
	case "append":
		return e.appendOp(fr, cc, args, heap)
	case "copy":
		return e.copyOp(fr, cc, args, heap)
	case "panic":
		return nil
	case "print", "println":
		return nil
	case "delete":
		mt := under(cc.Args[0].Type()).(*types.Map)
		m := e.scalar(args[0]).T
		k := e.scalar(args[1]).T
		mc := e.mapComponents(mt)
		cur := e.heapGet(heap, mc.present)
		heap[mc.present.key] = e.sc.define("H_mp", mc.present.sort, sto(cur, m, sto(sel(cur, m), k, ite(e.guard, "false", sel(sel(cur, m), k)))))
		e.dirty[mc.present.key] = true
		return nil
	case "min", "max":
		a, bb := e.scalar(args[0]), e.scalar(args[1])
		t := cc.Args[0].Type()
		op := "bvult"
		if isSigned(t) {
			op = "bvslt"
		}
		if b.Name() == "min" {
			return Sc{e.sc.define("min", a.S, ite(app(op, a.T, bb.T), a.T, bb.T)), a.S}
		}
		return Sc{e.sc.define("max", a.S, ite(app(op, a.T, bb.T), bb.T, a.T)), a.S}
	case "ssa:wrapnilchk":
		return args[0]
	}
	fail("builtin %s", b.Name())
	return nil
}

// appendOp models append(s, t...) as: a fresh backing array whose first len(s)
// elements equal s's and whose next len(t) elements equal t's.
func (e *Engine) appendOp(fr *frame, cc *ssa.CallCommon, args []Val, heap Heap) Val {
	st := under(cc.Args[0].Type()).(*types.Slice)
	s := args[0].(SliceVal)
	switch x := args[1].(type) {
	case SliceVal:
		return e.appendRaw(s, x, st.Elem(), heap, false, "")
	case Sc:
		// append([]byte, string...)
		return e.appendRaw(s, SliceVal{Len: app("gs_len", x.T)}, st.Elem(), heap, true, x.T)
	}
	fail("append of %T", args[1])
	return nil
}

// appendRaw is append(s, t...) for element type et (t may be a string's bytes).
func (e *Engine) appendRaw(s, t SliceVal, et types.Type, heap Heap, tIsString bool, tStr string) SliceVal {
	st := types.NewSlice(et)
	ref := e.alloc()
	newLen := e.sc.define("alen", SI64, e.sc.addS(s.Len, t.Len))
	e.forLeaves(types.NewSlice(st.Elem()), []pathElem{{field: -1}}, st.Elem(), func(path []pathElem, suffix, leaf string, lt types.Type) {
		c := e.comp(types.NewSlice(st.Elem()), path, suffix, leaf)
		if c.nidx != 1 {
			fail("append on slices of nested arrays")
		}
		cur := e.heapGet(heap, c)
		// new backing array N with: N[i] = S[soff+i] for i<slen ; N[slen+j] = T[toff+j]
		sarr := e.sc.selIdx(cur, s.Arr)
		if off, ok := e.sc.lit(s.Off); ok && !tIsString {
			if v, _, _ := bvLitVal(off); v == 0 {
				if cnt, ok := e.smallConst(t.Len); ok && cnt <= 8 {
					// source starts at offset 0 and a few elements are appended: the new array is
					// the old one with point updates (elements beyond the new length are never read)
					tarr := e.sc.selIdx(cur, t.Arr)
					n := sarr
					if sl, ok := e.sc.lit(s.Len); ok {
						if lv, _, _ := bvLitVal(sl); lv == 0 {
							n = e.zeroArr(leaf, zeroOfLeaf(leaf, suffix, lt), -1)
						}
					}
					for j := 0; j < cnt; j++ {
						n = sto(n, e.sc.addS(s.Len, bvLit(uint64(j), 64)), e.sc.selIdx(tarr, e.sc.addS(t.Off, bvLit(uint64(j), 64))))
					}
					heap[c.key] = e.sc.define("H_"+c.key, c.sort, sto(cur, ref, e.sc.define("apnd", arrSort(SI64, leaf), n)))
					return
				}
			}
		}
		n := e.sc.declare("apnd_"+c.key, arrSort(SI64, leaf))
		// concrete small appends (the common case in this code base) are written as stores
		if cnt, ok := e.smallConst(t.Len); ok && cnt <= 8 && !tIsString {
			tarr := e.sc.selIdx(cur, t.Arr)
			// N = store*(shift(S)) cannot be expressed without lambda; use the quantified characterisation for the prefix
			// and point stores for the tail
			e.assumeCopy(n, bvLit(0, 64), sarr, s.Off, s.Len)
			for j := 0; j < cnt; j++ {
				di := e.sc.addS(s.Len, bvLit(uint64(j), 64))
				v := e.sc.selIdx(tarr, e.sc.addS(t.Off, bvLit(uint64(j), 64)))
				e.sc.assume(eq(sel(n, di), v))
				if dl, ok := e.sc.lit(di); ok && len(e.sc.binders) == 0 {
					if e.sc.elemFacts[n] == nil {
						e.sc.elemFacts[n] = map[string]string{}
					}
					e.sc.elemFacts[n][dl] = v
				}
			}
		} else {
			e.assumeCopy(n, bvLit(0, 64), sarr, s.Off, s.Len)
			if tIsString {
				e.needStrOp("gs_bytes", []string{SStr}, arrSort(SI64, SI8))
				e.strBytesFacts(tStr)
				e.assumeCopy(n, s.Len, app("gs_bytes", tStr), bvLit(0, 64), t.Len)
			} else {
				e.assumeCopy(n, s.Len, sel(cur, t.Arr), t.Off, t.Len)
			}
		}
		heap[c.key] = e.sc.define("H_"+c.key, c.sort, sto(cur, ref, n))
	})
	return SliceVal{ref, bvLit(0, 64), newLen}
}

func (e *Engine) smallConst(t string) (int, bool) {
	var v uint64
	if _, err := fmt.Sscanf(t, "(_ bv%d 64)", &v); err == nil && v < 1024 {
		return int(v), true
	}
	return 0, false
}

// assumeCopy asserts dst[dOff+i] == src[sOff+i] for 0 <= i < n. Small constant n
// is unrolled; otherwise a quantified fact is emitted.
func (e *Engine) assumeCopy(dst, dOff, src, sOff, n string) {
	if cnt, ok := e.smallConst(n); ok && cnt <= 16 {
		for i := 0; i < cnt; i++ {
			ii := bvLit(uint64(i), 64)
			di := e.sc.addS(dOff, ii)
			v := e.sc.selIdx(src, e.sc.addS(sOff, ii))
			e.sc.assume(eq(sel(dst, di), v))
			if dl, ok := e.sc.lit(di); ok && len(e.sc.binders) == 0 {
				if e.sc.elemFacts[dst] == nil {
					e.sc.elemFacts[dst] = map[string]string{}
				}
				e.sc.elemFacts[dst][dl] = v
			}
		}
		return
	}
	if e.unrollCopies && len(e.sc.binders) == 0 {
		// option unroll-appends: instead of the quantified fact, its first 16 instances written out, so that
		// goals about short byte sequences (an instruction's bytes) need no quantifier instantiation
		for k := 0; k < 16; k++ {
			kk := bvLit(uint64(k), 64)
			e.sc.assume(implies(app("bvslt", kk, n), eq(sel(dst, e.sc.addS(dOff, kk)), sel(src, e.sc.addS(sOff, kk)))))
		}
		// (the quantified fact itself is left out: fewer hypotheses, and the goal stays quantifier-free)
		return
	}
	i := e.sc.freshName("ci")
	body := implies(and(app("bvsle", bvLit(0, 64), i), app("bvslt", i, n)),
		eq(sel(dst, e.sc.addS(dOff, i)), sel(src, e.sc.addS(sOff, i))))
	if len(e.sc.binders) > 0 {
		e.sc.assume(fmt.Sprintf("(forall ((%s %s)) %s)", i, SI64, body))
	} else {
		e.sc.add(fmt.Sprintf("(assert (forall ((%s %s)) %s))", i, SI64, body))
	}
}

func (e *Engine) copyOp(fr *frame, cc *ssa.CallCommon, args []Val, heap Heap) Val {
	st := under(cc.Args[0].Type()).(*types.Slice)
	d := args[0].(SliceVal)
	var n string
	var srcArr func(c *component, cur string) string
	var sOff string
	switch x := args[1].(type) {
	case SliceVal:
		n = e.sc.define("cpn", SI64, ite(app("bvslt", d.Len, x.Len), d.Len, x.Len))
		srcArr = func(c *component, cur string) string { return sel(cur, x.Arr) }
		sOff = x.Off
	case Sc:
		sl := app("gs_len", x.T)
		n = e.sc.define("cpn", SI64, ite(app("bvslt", d.Len, sl), d.Len, sl))
		e.needStrOp("gs_bytes", []string{SStr}, arrSort(SI64, SI8))
		e.strBytesFacts(x.T)
		srcArr = func(c *component, cur string) string { return app("gs_bytes", x.T) }
		sOff = bvLit(0, 64)
	}
	e.forLeaves(types.NewSlice(st.Elem()), []pathElem{{field: -1}}, st.Elem(), func(path []pathElem, suffix, leaf string, lt types.Type) {
		c := e.comp(types.NewSlice(st.Elem()), path, suffix, leaf)
		cur := e.heapGet(heap, c)
		old := sel(cur, d.Arr)
		nw := e.sc.declare("copy_"+c.key, arrSort(SI64, leaf))
		// nw agrees with src on the copied range and with old elsewhere
		src := srcArr(c, cur)
		i := e.sc.freshName("ci")
		inr := and(app("bvsle", d.Off, i), app("bvslt", i, app("bvadd", d.Off, n)))
		body := eq(sel(nw, i), ite(inr, sel(src, app("bvadd", sOff, app("bvsub", i, d.Off))), sel(old, i)))
		if cnt, ok := e.smallConst(n); ok && cnt <= 8 {
			t := old
			for j := 0; j < cnt; j++ {
				jj := bvLit(uint64(j), 64)
				t = sto(t, app("bvadd", d.Off, jj), sel(src, app("bvadd", sOff, jj)))
			}
			heap[c.key] = e.sc.define("H_"+c.key, c.sort, sto(cur, d.Arr, ite(e.guard, t, old)))
			e.dirty[c.key] = true
			return
		}
		if dl, ok := e.smallConst(d.Len); ok && dl <= 48 && (dl <= 8 || isBVLit(e.sc.resolve(d.Off))) {
			// a short destination: at most dl elements change, each conditionally
			t := old
			for j := 0; j < dl; j++ {
				jj := bvLit(uint64(j), 64)
				di := e.sc.addS(d.Off, jj)
				t = sto(t, di, ite(app("bvslt", jj, n), sel(src, e.sc.addS(sOff, jj)), sel(old, di)))
			}
			heap[c.key] = e.sc.define("H_"+c.key, c.sort, sto(cur, d.Arr, ite(e.guard, t, old)))
			e.dirty[c.key] = true
			return
		}
		e.sc.add(fmt.Sprintf("(assert (forall ((%s %s)) %s))", i, SI64, body))
		heap[c.key] = e.sc.define("H_"+c.key, c.sort, sto(cur, d.Arr, ite(e.guard, nw, old)))
		e.dirty[c.key] = true
	})
	return Sc{n, SI64}
}

// pureResult returns deterministic results for a call of a pure function: the
// same function on the same argument terms in the same heap yields the same symbols.
func (e *Engine) pureResult(fn *ssa.Function, args []Val, resT types.Type, heap Heap) Val {
	// only components in which pre-existing objects were written can change what a pure
	// function of pre-existing arguments observes
	dh := Heap{}
	for k, v := range heap {
		if e.dirty[k] {
			dh[k] = v
		}
	}
	key := fmt.Sprintf("pure|%p|%s|%s", fn, e.canonVals(args), heapFingerprint(dh))
	if r, ok := e.pureMemo[key]; ok {
		return r
	}
	r := e.havocResult(resT, "pure_"+fn.Name())
	e.pureMemo[key] = r
	return r
}

func isAssumedLabel(l string) bool {
	if len(l) < 2 || l[0] != 'A' {
		return false
	}
	for _, c := range l[1:] {
		if c < '0' || c > '9' {
			return false
		}
	}
	return true
}

// cannotInline explains why fn cannot be inlined ("" if it can).
func (e *Engine) cannotInline(fn *ssa.Function) string {
	if r, ok := e.inlineMemo[fn]; ok {
		return r
	}
	e.inlineMemo[fn] = "" // cycle guard
	r := e.cannotInline1(fn, map[*ssa.Function]bool{})
	e.inlineMemo[fn] = r
	return r
}

func (e *Engine) cannotInline1(fn *ssa.Function, path map[*ssa.Function]bool) string {
	if path[fn] {
		return "recursion through " + fn.Name()
	}
	for _, s := range e.stack {
		if s == fn {
			return "recursion through " + fn.Name()
		}
	}
	path[fn] = true
	defer delete(path, fn)
	// loops without ghost invariants
	st := map[*ssa.BasicBlock]int{}
	loop := false
	var dfs func(b *ssa.BasicBlock)
	dfs = func(b *ssa.BasicBlock) {
		st[b] = 1
		for _, s := range b.Succs {
			if st[s] == 0 {
				dfs(s)
			} else if st[s] == 1 {
				loop = true
			}
		}
		st[b] = 2
	}
	if len(fn.Blocks) > 0 {
		dfs(fn.Blocks[0])
	}
	if loop {
		hasInv := false
		for _, b := range fn.Blocks {
			for _, ins := range b.Instrs {
				if c, ok := ins.(*ssa.Call); ok {
					if _, g := isGhostInv(c); g {
						hasInv = true
					}
				}
			}
		}
		if !hasInv {
			return "loop without invariant in " + fn.Name()
		}
	}
	for _, b := range fn.Blocks {
		for _, ins := range b.Instrs {
			ci, ok := ins.(ssa.CallInstruction)
			if !ok {
				continue
			}
			f := ci.Common().StaticCallee()
			if f == nil {
				if mc, ok := ci.Common().Value.(*ssa.MakeClosure); ok {
					f = mc.Fn.(*ssa.Function)
				}
			}
			if f == nil || len(f.Blocks) == 0 || !e.inlinable(f) {
				continue
			}
			bn := f.Name()
			if f.Origin() != nil {
				bn = f.Origin().Name()
			}
			switch bn {
			case "forall", "exists", "forallKeys", "forallStrings", "old", "implies", "vcSame", "vcSortPerm", "vcSortFact":
				continue // ghost intrinsics: interpreted by the engine, their Go bodies serve the replay only
			}
			if c := e.w.contractFor(f); c != nil && len(c.byKind("ensures")) > 0 && !c.Options["trusted"] {
				continue
			}
			// (a trusted contract - e.g. on the operand parser - serves the functions under contract
			// that call it directly; it does not make other callers inlinable)
			name := fullName(f)
			if strings.HasPrefix(name, "github.com/samber/lo.") {
				switch name {
				case "github.com/samber/lo.Map", "github.com/samber/lo.Find", "github.com/samber/lo.Contains":
					continue
				}
			}
			if r, ok := e.inlineMemo[f]; ok {
				if r != "" {
					return r
				}
				continue
			}
			if r := e.cannotInline1(f, path); r != "" {
				return r
			}
		}
	}
	return ""
}

// calleeMatches compares an SSA full name such as "(*text/template.Template).Execute"
// with a clause name such as "(*template.Template).Execute" (package name or path).
func calleeMatches(full, pat string) bool {
	if full == pat {
		return true
	}
	norm := func(x string) string {
		// drop directory part of the package path
		star := ""
		rest := x
		pre := ""
		if strings.HasPrefix(x, "(") {
			pre = "("
			rest = x[1:]
			if strings.HasPrefix(rest, "*") {
				star = "*"
				rest = rest[1:]
			}
		}
		if i := strings.LastIndex(rest, "/"); i >= 0 {
			// only strip if the slash is inside the package path (before the first '.' after it)
			rest = rest[i+1:]
		}
		return pre + star + rest
	}
	if norm(full) == norm(pat) {
		return true
	}
	// a bare function name refers to a function of any package with that name
	return !strings.ContainsAny(pat, "./(") && strings.HasSuffix(full, "."+pat)
}

// addressTakenFuncs lists the repository functions (including closures) with the
// given signature that are used as values somewhere in the repository.
func (e *Engine) addressTakenFuncs(sig *types.Signature) []*ssa.Function {
	if sig == nil {
		return nil
	}
	key := sig.String()
	if r, ok := e.w.dynCache.Load(key); ok {
		return r.([]*ssa.Function)
	}
	taken := map[*ssa.Function]bool{}
	var visit func(fn *ssa.Function)
	seen := map[*ssa.Function]bool{}
	visit = func(fn *ssa.Function) {
		if seen[fn] {
			return
		}
		seen[fn] = true
		for _, b := range fn.Blocks {
			for _, ins := range b.Instrs {
				var ops []*ssa.Value
				ops = ins.Operands(ops)
				isCallee := func(v ssa.Value) bool {
					if ci, ok := ins.(ssa.CallInstruction); ok {
						return ci.Common().Value == v
					}
					return false
				}
				for _, op := range ops {
					if op == nil || *op == nil {
						continue
					}
					switch x := (*op).(type) {
					case *ssa.Function:
						if !isCallee(x) {
							taken[x] = true
						}
					case *ssa.MakeClosure:
						if f, ok := x.Fn.(*ssa.Function); ok && !isCallee(x) {
							taken[f] = true
						}
					}
				}
				if mc, ok := ins.(*ssa.MakeClosure); ok {
					if f, ok := mc.Fn.(*ssa.Function); ok {
						taken[f] = true
					}
				}
			}
		}
		for _, af := range fn.AnonFuncs {
			visit(af)
		}
	}
	for path, sp := range e.w.SSA {
		if !strings.HasPrefix(path, repoModule) {
			continue
		}
		for _, m := range sp.Members {
			if f, ok := m.(*ssa.Function); ok {
				visit(f)
			}
		}
	}
	var res []*ssa.Function
	for f := range taken {
		if types.Identical(f.Signature, sig) {
			res = append(res, f)
		}
	}
	sort.Slice(res, func(i, j int) bool { return res[i].String() < res[j].String() })
	e.w.dynCache.Store(key, res)
	return res
}

func (e *Engine) onStack(fn *ssa.Function) bool {
	for _, s := range e.stack {
		if s == fn {
			return true
		}
	}
	return false
}

// isRecursive: fn calls itself directly (spec functions only).
func (e *Engine) isRecursive(fn *ssa.Function) bool {
	if r, ok := e.recMemo[fn]; ok {
		return r
	}
	rec := false
	for _, b := range fn.Blocks {
		for _, ins := range b.Instrs {
			if c, ok := ins.(*ssa.Call); ok && c.Call.StaticCallee() == fn {
				rec = true
			}
		}
	}
	e.recMemo[fn] = rec
	return rec
}

// recApp is the uninterpreted application standing for a call of a recursive spec
// function in the given heap.
func (e *Engine) recApp(fn *ssa.Function, args []Val, resT types.Type, heap Heap) Val {
	var leaves []string
	var sorts []string
	for i, a := range args {
		for _, l := range e.leavesOfAny(a, fn.Params[i].Type()) {
			leaves = append(leaves, l.T)
			sorts = append(sorts, l.S)
		}
	}
	// the function's value can only change when objects that existed at entry are written
	hid := e.dirtyHeapIDFor(heap, fn)
	rs, ok := scalarSort(resT)
	if !ok {
		fail("recursive spec function %s must return a scalar", fn.Name())
	}
	name := fmt.Sprintf("rec_%s_h%d", sanitize(fn.Name()), hid)
	e.sc.declareFun(name, sorts, rs)
	if len(leaves) == 0 {
		return Sc{"(" + name + ")", rs}
	}
	return Sc{app(name, leaves...), rs}
}

func (e *Engine) heapID(h Heap) int {
	fp := heapFingerprint(h)
	if id, ok := e.epochs["heap|"+fp]; ok {
		return id
	}
	id := len(e.epochs) + 1
	e.epochs["heap|"+fp] = id
	return id
}

// leavesOfAny flattens a value into scalars (with sorts).
func (e *Engine) leavesOfAny(v Val, t types.Type) []Sc {
	switch x := v.(type) {
	case Sc:
		return []Sc{x}
	case PtrVal:
		return []Sc{e.ptrScalar(x)}
	case SliceVal:
		return []Sc{{x.Arr, SRef}, {x.Off, SI64}, {x.Len, SI64}}
	case IfaceVal:
		return []Sc{{x.Tag, STag}, {x.Ref, SRef}, {x.Str, SStr}, {x.BV, SI64}}
	case StructVal:
		st := under(t).(*types.Struct)
		var r []Sc
		for i, f := range x.F {
			r = append(r, e.leavesOfAny(f, st.Field(i).Type())...)
		}
		return r
	case FuncVal:
		return []Sc{e.scalar(x)}
	}
	fail("cannot flatten %T", v)
	return nil
}

func (e *Engine) assumeEqVal(a, b Val, t types.Type) {
	la, lb := e.leavesOfAny(a, t), e.leavesOfAny(b, t)
	for i := range la {
		e.sc.assume(eq(la[i].T, lb[i].T))
	}
}

func (e *Engine) dirtyHeapID(heap Heap) int {
	dh := Heap{}
	for k, v := range heap {
		if e.dirty[k] {
			dh[k] = v
		}
	}
	return e.heapID(dh)
}

// dirtyHeapIDFor: as dirtyHeapID, restricted to the components fn (and what it calls) can read:
// writes to other components cannot change its value.
func (e *Engine) dirtyHeapIDFor(heap Heap, fn *ssa.Function) int {
	roots, all := e.readRoots(fn, map[*ssa.Function]bool{})
	if all {
		return e.dirtyHeapID(heap)
	}
	dh := Heap{}
	for k, v := range heap {
		if !e.dirty[k] {
			continue
		}
		for r := range roots {
			if k == r || strings.HasPrefix(k, r+".") || strings.HasPrefix(k, r+"[") || strings.HasPrefix(k, r+"#") {
				dh[k] = v
				break
			}
		}
	}
	return e.heapID(dh)
}

// readRoots: type keys of the objects fn may read from memory (syntactic, through static callees);
// all = true when that cannot be bounded (dynamic calls).
func (e *Engine) readRoots(fn *ssa.Function, seen map[*ssa.Function]bool) (map[string]bool, bool) {
	roots := map[string]bool{}
	if seen[fn] {
		return roots, false
	}
	seen[fn] = true
	addPtr := func(t types.Type) {
		if pt, ok := under(t).(*types.Pointer); ok {
			roots[typeKey(pt.Elem())] = true
			if at, ok := under(pt.Elem()).(*types.Array); ok {
				roots[typeKey(types.NewSlice(at.Elem()))] = true
			}
		}
	}
	for _, b := range fn.Blocks {
		for _, ins := range b.Instrs {
			switch x := ins.(type) {
			case *ssa.UnOp:
				if x.Op == token.MUL {
					addPtr(x.X.Type())
				}
			case *ssa.FieldAddr:
				addPtr(x.X.Type())
			case *ssa.IndexAddr:
				if st, ok := under(x.X.Type()).(*types.Slice); ok {
					roots[typeKey(types.NewSlice(st.Elem()))] = true
				} else {
					addPtr(x.X.Type())
				}
			case *ssa.Lookup:
				if mt, ok := under(x.X.Type()).(*types.Map); ok {
					roots[typeKey(mt)] = true
					roots[typeKey(x.X.Type())] = true
				}
			case *ssa.Slice:
				addPtr(x.X.Type())
			case ssa.CallInstruction:
				cc := x.Common()
				if cc.IsInvoke() {
					return roots, true
				}
				if _, isB := cc.Value.(*ssa.Builtin); isB {
					continue
				}
				f := cc.StaticCallee()
				if f == nil {
					if mc, ok := cc.Value.(*ssa.MakeClosure); ok {
						f, _ = mc.Fn.(*ssa.Function)
					}
				}
				if f == nil {
					return roots, true
				}
				if len(f.Blocks) == 0 || !e.inRepo(f) {
					continue // library functions: modelled without reading repository objects
				}
				sub, all := e.readRoots(f, seen)
				if all {
					return roots, true
				}
				for k := range sub {
					roots[k] = true
				}
			}
		}
	}
	for _, af := range fn.AnonFuncs {
		sub, all := e.readRoots(af, seen)
		if all {
			return roots, true
		}
		for k := range sub {
			roots[k] = true
		}
	}
	return roots, false
}

// canonVals renders values with all definitions expanded.
func (e *Engine) canonVals(vs []Val) string {
	var b strings.Builder
	var walk func(v Val)
	walk = func(v Val) {
		switch x := v.(type) {
		case Sc:
			b.WriteString(e.sc.canon(x.T))
		case PtrVal:
			b.WriteString(e.sc.canon(x.Base))
			for _, p := range x.Path {
				fmt.Fprintf(&b, ".%d%s", p.field, e.sc.canon(p.idx))
			}
		case SliceVal:
			b.WriteString(e.sc.canon(x.Arr) + "," + e.sc.canon(x.Off) + "," + e.sc.canon(x.Len))
		case IfaceVal:
			b.WriteString(e.sc.canon(x.Tag) + "," + e.sc.canon(x.Ref) + "," + e.sc.canon(x.Str) + "," + e.sc.canon(x.BV))
		case StructVal:
			for _, f := range x.F {
				walk(f)
				b.WriteByte(';')
			}
		case TupleVal:
			for _, f := range x {
				walk(f)
				b.WriteByte(';')
			}
		default:
			fmt.Fprintf(&b, "%v", v)
		}
		b.WriteByte('|')
	}
	for _, v := range vs {
		walk(v)
	}
	return b.String()
}

// ifacePureResult: the results of a pure interface method as applications of
// uninterpreted functions (one per scalar leaf of the results) to the receiver
// (as an interface value) and the arguments.
func (e *Engine) ifacePureResult(named *types.Named, mname string, recv Val, recvT types.Type, args []Val, msig *types.Signature, resT types.Type) Val {
	var leaves, sorts []string
	for _, l := range e.leavesOfAny(recv, recvT) {
		leaves = append(leaves, l.T)
		sorts = append(sorts, l.S)
	}
	for i, a := range args {
		for _, l := range e.leavesOfAny(a, msig.Params().At(i).Type()) {
			leaves = append(leaves, l.T)
			sorts = append(sorts, l.S)
		}
	}
	n := 0
	mk := func(sort string) string {
		name := fmt.Sprintf("ifn_%s_%s_%d", sanitize(named.Obj().Name()), mname, n)
		n++
		e.sc.declareFun(name, sorts, sort)
		return app(name, leaves...)
	}
	var build func(t types.Type) Val
	build = func(t types.Type) Val {
		if s, ok := scalarSort(t); ok {
			return Sc{mk(s), s}
		}
		switch u := under(t).(type) {
		case *types.Interface:
			return IfaceVal{mk(STag), mk(SRef), mk(SStr), mk(SI64)}
		case *types.Slice:
			return SliceVal{mk(SRef), mk(SI64), mk(SI64)}
		case *types.Struct:
			sv := StructVal{}
			for i := 0; i < u.NumFields(); i++ {
				sv.F = append(sv.F, build(u.Field(i).Type()))
			}
			return sv
		}
		fail("pure interface method result of type %s", t)
		return nil
	}
	if tup, ok := resT.(*types.Tuple); ok {
		var tv TupleVal
		for i := 0; i < tup.Len(); i++ {
			tv = append(tv, build(tup.At(i).Type()))
		}
		return tv
	}
	if resT != nil {
		return build(resT)
	}
	return nil
}

// pureIfaceFor: if fn is a method whose receiver type implements an interface of its
// package that carries a pure contract for this method, return that interface.
func (e *Engine) pureIfaceFor(fn *ssa.Function) *types.Named {
	if fn.Signature.Recv() == nil || fn.Pkg == nil {
		return nil
	}
	rt := fn.Signature.Recv().Type()
	sc := fn.Pkg.Pkg.Scope()
	for _, n := range sc.Names() {
		tn, ok := sc.Lookup(n).(*types.TypeName)
		if !ok {
			continue
		}
		it, ok := tn.Type().Underlying().(*types.Interface)
		if !ok {
			continue
		}
		id := fn.Pkg.Pkg.Path() + ".(" + tn.Name() + ")." + fn.Name()
		if c := e.w.Contracts[id]; c != nil && c.Options["pure"] && types.Implements(rt, it) {
			return tn.Type().(*types.Named)
		}
	}
	return nil
}

// inRepo: fn belongs to a package of the repository under verification.
func (e *Engine) inRepo(fn *ssa.Function) bool {
	p := fn.Pkg
	if p == nil && fn.Origin() != nil {
		p = fn.Origin().Pkg
	}
	for q := fn; p == nil && q.Parent() != nil; {
		q = q.Parent()
		p = q.Pkg
	}
	return p != nil && strings.HasPrefix(p.Pkg.Path(), repoModule)
}
