package main

import (
	"bytes"
	"encoding/json"
	"fmt"
	"go/types"
	"os"
	"os/exec"
	"path/filepath"
	"strconv"
	"strings"
	"time"
)

// rawVal is one probe value from a solver model.
type rawVal struct {
	U     uint64
	OK    bool
	Bool  bool
	Lit   string
	IsLit bool
}

// modelValues runs the satisfiable query again with model production and
// returns the raw values of all input probes by path.
func modelValues(dir string, vc *FuncVC, o *Obligation, solverName string, timeoutS int) (map[string]rawVal, string) {
	return modelValuesX(dir, vc, o, solverName, timeoutS, "", nil)
}

func modelValuesExtra(dir string, vc *FuncVC, o *Obligation, extraAsserts string, extra func() []probe) (map[string]rawVal, string) {
	return modelValuesX(dir, vc, o, "z3-5.1.0", 30, extraAsserts, extra)
}

func modelValuesX(dir string, vc *FuncVC, o *Obligation, solverName string, timeoutS int, extraAsserts string, extra func() []probe) (map[string]rawVal, string) {
	sc := vc.Engine.sc
	before := len(sc.lines)
	if o.Upto > before {
		before = o.Upto
	}
	probes := vc.inputProbes()
	if extra != nil {
		probes = append(probes, extra()...)
	}
	var b strings.Builder
	b.WriteString("(set-option :produce-models true)\n(set-logic ALL)\n")
	b.WriteString(sc.text(o.Upto))
	if o.Cover {
		b.WriteString("(assert " + o.Goal + ")\n")
	} else {
		b.WriteString("(assert (not " + o.Goal + "))\n")
	}
	_ = before
	for _, l := range sc.lines[o.Upto:] {
		// later definitions and declarations (never assumptions): the probes may use them
		if !strings.HasPrefix(l, "(assert") {
			b.WriteString(l + "\n")
		}
	}
	// prefer small inputs: slices of at most 4 elements (dropped if that is infeasible)
	small := ""
	for _, p := range probes {
		if strings.HasSuffix(p.Path, "#len") && p.Kind == "int" && !strings.Contains(p.Term, "gs_len") {
			small += "(assert (bvsle " + p.Term + " (_ bv3 64)))\n"
		}
		if p.Kind == "mapref" {
			small += "(assert (= " + p.Term + " (_ bv0 32)))\n"
		}
		if p.Kind == "str" && len(vc.Engine.litOrder) > 1 && len(vc.Engine.parseCalls) == 0 {
			var alts []string
			for _, lit := range vc.Engine.litOrder {
				alts = append(alts, "(= "+p.Term+" "+vc.Engine.lits[lit]+")")
			}
			small += "(assert (or " + strings.Join(alts, " ") + "))\n"
		}
	}
	b.WriteString(extraAsserts)
	b.WriteString("SMALL-INPUTS\n")
	b.WriteString("(check-sat)\n")
	// string-valued probes are decoded by comparing their abstract model value with
	// the abstract values of the program's literals
	for i, lit := range vc.Engine.litOrder {
		probes = append(probes, probe{fmt.Sprintf("lit#%d", i), vc.Engine.lits[lit], SStr, "lit", 0})
	}
	for _, p := range probes {
		b.WriteString("(get-value (" + p.Term + "))\n")
	}
	file := filepath.Join(dir, sanitize(o.Name)+".model.smt2")
	full := b.String()
	_ = os.WriteFile(file, []byte(strings.Replace(full, "SMALL-INPUTS\n", small, 1)), 0o644)
	order := []solverSpec{}
	for _, s := range solvers {
		if s.name == solverName {
			order = append(order, s)
		}
	}
	for _, s := range solvers {
		if s.name != solverName {
			order = append(order, s)
		}
	}
	var out string
	st := ""
	for _, sp := range order {
		st, out, _ = runSolverCtx(sp, file, timeoutS)
		if st == "sat" {
			break
		}
	}
	res := map[string]rawVal{}
	if st != "sat" {
		// retry without the small-input preference
		_ = os.WriteFile(file, []byte(strings.Replace(full, "SMALL-INPUTS\n", "", 1)), 0o644)
		for _, sp := range order {
			st, out, _ = runSolverCtx(sp, file, timeoutS)
			if st == "sat" {
				break
			}
		}
	}
	if st != "sat" {
		return res, out
	}
	lines := strings.Split(out, "\n")
	answers := splitSexprs(strings.Join(lines[1:], " "))
	abs := map[string]string{} // abstract value -> literal
	strv := map[string]string{}
	for i, p := range probes {
		if i >= len(answers) {
			break
		}
		if p.Kind == "lit" {
			var k int
			fmt.Sscanf(p.Path, "lit#%d", &k)
			abs[valueOf(answers[i])] = vc.Engine.litOrder[k]
		}
		if p.Kind == "str" {
			strv[p.Path] = valueOf(answers[i])
		}
	}
	for i, p := range probes {
		if i >= len(answers) {
			break
		}
		v := valueOf(answers[i])
		rv := rawVal{}
		switch p.Kind {
		case "lit":
			continue
		case "bool":
			rv.Bool = v == "true"
			rv.OK = v == "true" || v == "false"
		case "str":
			rv.OK = true
		default:
			rv.U, rv.OK = parseBV(v)
			if p.Kind == "int" {
				rv.U = uint64(signExt(rv.U, p.Bits))
			}
		}
		res[p.Path] = rv
	}
	for _, p := range probes {
		if p.Kind == "str" {
			rv := res[p.Path]
			if lit, isLit := abs[strv[p.Path]]; isLit {
				rv.Lit, rv.IsLit = lit, true
			} else {
				rv.U = uint64(hashStr(strv[p.Path]) % 1000)
			}
			res[p.Path] = rv
		}
	}
	return res, out
}

func runSolverCtx(sp solverSpec, file string, timeoutS int) (string, string, int64) {
	return runSolver(ctxBackground(), sp, file, timeoutS)
}

// goLiteral renders the model value at path as a Go expression of type t, for use
// inside package pkg. ok=false means the value cannot be reconstructed faithfully.
func goLiteral(m map[string]rawVal, path string, t types.Type, pkg *types.Package, depth int, notes *[]string) (string, bool) {
	qual := func(p *types.Package) string {
		if p == pkg {
			return ""
		}
		return p.Name()
	}
	ts := types.TypeString(t, qual)
	switch u := under(t).(type) {
	case *types.Basic:
		rv, ok := m[path]
		switch {
		case u.Info()&types.IsBoolean != 0:
			if !ok {
				return "false", true
			}
			return fmt.Sprintf("%v", rv.Bool), true
		case u.Info()&types.IsString != 0:
			if !ok {
				return `""`, true
			}
			if rv.IsLit {
				return ts + "(" + strconv.Quote(rv.Lit) + ")", true
			}
			// a string that the program parses as a number: use the number's text
			for k := 0; k < 8; k++ {
				if ok, has := m[fmt.Sprintf("%s#pok%d", path, k)]; has && ok.Bool {
					v := int64(m[fmt.Sprintf("%s#pval%d", path, k)].U)
					base := int64(m[fmt.Sprintf("%s#pbase%d", path, k)].U)
					txt := strconv.FormatInt(v, 10)
					if base == 16 {
						txt = strconv.FormatInt(v, 16)
					}
					*notes = append(*notes, fmt.Sprintf("%s: string reconstructed from the value it parses to (%s)", path, txt))
					return ts + "(" + strconv.Quote(txt) + ")", true
				}
			}
			n := int64(m[path+"#len"].U)
			if n == 0 {
				return ts + `("")`, true
			}
			if n < 0 || n > 64 {
				n = 8
			}
			*notes = append(*notes, fmt.Sprintf("%s: model string is not one of the literals of the program; a synthetic string of length %d is used", path, n))
			s := fmt.Sprintf("~%d~", rv.U)
			for int64(len(s)) < n {
				s += "~"
			}
			return ts + "(" + strconv.Quote(s[:n]) + ")", false
		case u.Info()&types.IsInteger != 0:
			if !ok || !rv.OK {
				return ts + "(0)", true
			}
			if isSigned(t) {
				return fmt.Sprintf("%s(%d)", ts, int64(rv.U)), true
			}
			return fmt.Sprintf("%s(%d)", ts, rv.U), true
		}
	case *types.Pointer:
		rv, ok := m[path]
		if !ok || !rv.OK || rv.U == 0 {
			return "nil", true
		}
		if st, isS := under(u.Elem()).(*types.Struct); isS && depth < 4 {
			inner, ok2 := structLiteral(m, path, u.Elem(), st, pkg, depth, notes)
			return "&" + inner, ok2
		}
		*notes = append(*notes, path+": pointer target not reconstructed")
		return "nil", false
	case *types.Struct:
		return structLiteral(m, path, t, u, pkg, depth, notes)
	case *types.Slice:
		n := int64(m[path+"#len"].U)
		arr := m[path+"#arr"]
		if arr.OK && arr.U == 0 {
			return "nil", true
		}
		if n > 4 {
			*notes = append(*notes, fmt.Sprintf("%s: slice of length %d truncated to 4 elements", path, n))
			return "nil", false
		}
		var parts []string
		allOK := true
		for i := int64(0); i < n; i++ {
			el, ok := goLiteral(m, fmt.Sprintf("%s[%d]", path, i), u.Elem(), pkg, depth+1, notes)
			allOK = allOK && ok
			parts = append(parts, el)
		}
		return ts + "{" + strings.Join(parts, ", ") + "}", allOK
	case *types.Map:
		if rv, ok := m[path]; ok && rv.OK && rv.U == 0 {
			return "nil", true
		}
		*notes = append(*notes, path+": map contents not reconstructed (empty map used)")
		return ts + "{}", false
	case *types.Interface:
		tag := m[path+"#tag"]
		if !tag.OK || tag.U == 0 {
			return "nil", true
		}
		*notes = append(*notes, path+": non-nil interface value not reconstructed")
		return "nil", false
	}
	*notes = append(*notes, fmt.Sprintf("%s: type %s not reconstructed", path, ts))
	return "", false
}

func structLiteral(m map[string]rawVal, path string, t types.Type, st *types.Struct, pkg *types.Package, depth int, notes *[]string) (string, bool) {
	qual := func(p *types.Package) string {
		if p == pkg {
			return ""
		}
		return p.Name()
	}
	var fields []string
	allOK := true
	for i := 0; i < st.NumFields(); i++ {
		f := st.Field(i)
		if !f.Exported() && f.Pkg() != pkg {
			// cannot be set from this package
			if hasAny(m, path+"."+f.Name()) {
				*notes = append(*notes, path+"."+f.Name()+": unexported field of another package cannot be set")
				allOK = false
			}
			continue
		}
		v, ok := goLiteral(m, path+"."+f.Name(), f.Type(), pkg, depth+1, notes)
		if v == "" {
			allOK = false
			continue
		}
		allOK = allOK && ok
		fields = append(fields, f.Name()+": "+v)
	}
	return types.TypeString(t, qual) + "{" + strings.Join(fields, ", ") + "}", allOK
}

func hasAny(m map[string]rawVal, prefix string) bool {
	for k := range m {
		if strings.HasPrefix(k, prefix) {
			return true
		}
	}
	return false
}

// ReplayOutcome describes one replay attempt.
type ReplayOutcome struct {
	Attempted bool     `json:"attempted"`
	Confirmed bool     `json:"confirmed"`
	Faithful  bool     `json:"inputs_faithful"`
	Notes     []string `json:"notes,omitempty"`
	Inputs    []string `json:"inputs,omitempty"`
	Output    string   `json:"output,omitempty"`
	TestSrc   string   `json:"test_source,omitempty"`
	Cmd       string   `json:"cmd,omitempty"`
}

// replay runs the real function on the model's inputs (in-package test injected
// through -overlay; /repo is not written) and evaluates the violated clause.
func replay(w *World, vc *FuncVC, o *Obligation, m map[string]rawVal, scratch string) ReplayOutcome {
	out := ReplayOutcome{}
	c := vc.Contract
	fn := vc.Fn
	if fn == nil || len(m) == 0 {
		out.Notes = append(out.Notes, "no model")
		return out
	}
	var clause *Clause
	if o.Kind == "ensures" {
		for _, cl := range c.byKind("ensures") {
			if c.Func+".ensures."+cl.Label == o.Name {
				clause = cl
			}
		}
		if clause == nil {
			out.Notes = append(out.Notes, "clause not found")
			return out
		}
	} else if o.Kind != "panic" {
		out.Notes = append(out.Notes, "obligation kind "+o.Kind+" has no function-level replay")
		return out
	}
	pkg := fn.Pkg.Pkg
	sig := fn.Signature
	var decl, argNames []string
	faithful := true
	for _, in := range vc.Inputs {
		lit, ok := goLiteral(m, in.Name, in.Type, pkg, 0, &out.Notes)
		if lit == "" {
			out.Notes = append(out.Notes, "input "+in.Name+" not reconstructable")
			return out
		}
		faithful = faithful && ok
		nm := "in_" + sanitize(in.Name)
		qual := func(p *types.Package) string {
			if p == pkg {
				return ""
			}
			return p.Name()
		}
		decl = append(decl, fmt.Sprintf("\tvar %s %s = %s", nm, types.TypeString(in.Type, qual), lit))
		argNames = append(argNames, nm)
		out.Inputs = append(out.Inputs, fmt.Sprintf("%s = %s", in.Name, lit))
	}
	out.Faithful = faithful
	// call expression
	call := ""
	args := argNames
	if sig.Recv() != nil {
		call = fmt.Sprintf("%s.%s(%s)", args[0], fn.Name(), strings.Join(args[1:], ", "))
	} else {
		call = fmt.Sprintf("%s(%s)", fn.Name(), strings.Join(args, ", "))
	}
	var resNames []string
	for i := 0; i < sig.Results().Len(); i++ {
		resNames = append(resNames, fmt.Sprintf("r%d", i))
	}
	var src bytes.Buffer
	fmt.Fprintf(&src, "//go:build verif\n\npackage %s\n\nimport (\n\t\"fmt\"\n\tvcos \"os\"\n\t\"testing\"\n", pkg.Name())
	// imports needed by literals: scan for "name." patterns of the package's imports
	body := strings.Join(decl, "\n")
	for _, imp := range pkg.Imports() {
		if strings.Contains(body, imp.Name()+".") {
			fmt.Fprintf(&src, "\t%s %q\n", imp.Name(), imp.Path())
		}
	}
	// the replay runs in a scratch directory of its own: code under replay that creates files named by
	// its inputs must not litter the package directory of the tree under test
	fmt.Fprintf(&src, ")\n\nfunc TestVerifReplay(t *testing.T) {\n\tif wd, err := vcos.Getwd(); err == nil {\n\t\tdefer vcos.Chdir(wd)\n\t}\n\tvcos.Chdir(t.TempDir())\n%s\n", body)
	for _, cl := range c.byKind("requires") {
		fmt.Fprintf(&src, "\tif !%s(%s) { fmt.Println(\"REPLAY-INPUT-OUTSIDE-PRECONDITION %s\"); return }\n", cl.Pred, strings.Join(argNames, ", "), cl.Label)
	}
	fmt.Fprintf(&src, "\tdefer func() { if r := recover(); r != nil { fmt.Printf(\"REPLAY-PANIC %%v\\n\", r) } }()\n")
	if len(resNames) > 0 {
		fmt.Fprintf(&src, "\t%s := %s\n", strings.Join(resNames, ", "), call)
		for _, r := range resNames {
			fmt.Fprintf(&src, "\tfmt.Printf(\"REPLAY-RESULT %s = %%#v\\n\", %s)\n", r, r)
		}
	} else {
		fmt.Fprintf(&src, "\t%s\n", call)
	}
	if clause != nil {
		fmt.Fprintf(&src, "\tif %s(%s) { fmt.Println(\"REPLAY-CLAUSE-HOLDS\") } else { fmt.Println(\"REPLAY-CLAUSE-VIOLATED\") }\n",
			clause.Pred, strings.Join(append(append([]string{}, argNames...), resNames...), ", "))
	} else {
		fmt.Fprintf(&src, "\tfmt.Println(\"REPLAY-NO-PANIC\")\n")
	}
	fmt.Fprintf(&src, "}\n")
	out.TestSrc = src.String()
	// overlay: generated predicates + this test
	pkgDir := ""
	for f := range w.GenSrc {
		if strings.HasSuffix(filepath.Dir(f), strings.TrimPrefix(pkg.Path(), repoModule)) {
			pkgDir = filepath.Dir(f)
		}
	}
	if pkgDir == "" {
		out.Notes = append(out.Notes, "package directory not found")
		return out
	}
	os.MkdirAll(scratch, 0o755)
	ov := map[string]map[string]string{"Replace": {}}
	genTmp := filepath.Join(scratch, "zz_verif_gen.go")
	for f, s := range w.GenSrc {
		if filepath.Dir(f) == pkgDir {
			os.WriteFile(genTmp, []byte(s), 0o644)
			ov["Replace"][f] = genTmp
		}
	}
	nst := 0
	for f, b := range w.Stubs {
		// contract files that do not compile are replaced by their stubs for the replay build too
		tmp := filepath.Join(scratch, fmt.Sprintf("stub%d.go", nst))
		nst++
		os.WriteFile(tmp, b, 0o644)
		ov["Replace"][f] = tmp
	}
	testTmp := filepath.Join(scratch, "zz_verif_replay_test.go")
	os.WriteFile(testTmp, src.Bytes(), 0o644)
	ov["Replace"][filepath.Join(pkgDir, "zz_verif_replay_test.go")] = testTmp
	ovb, _ := json.Marshal(ov)
	ovFile := filepath.Join(scratch, "overlay.json")
	os.WriteFile(ovFile, ovb, 0o644)
	rel := "." + strings.TrimPrefix(pkg.Path(), repoModule)
	argv := []string{"test", "-mod=mod", "-tags", "verif", "-overlay", ovFile, "-vet=off", "-timeout", "60s", "-count=1", "-run", "^TestVerifReplay$", "-v", rel}
	cmd := exec.Command("go", argv...)
	cmd.Dir = w.RepoDir
	cmd.Env = append(os.Environ(), "GOFLAGS=-mod=mod", "GOPROXY=off", "GOSUMDB=off", "GOTOOLCHAIN=local")
	var buf bytes.Buffer
	cmd.Stdout = &buf
	cmd.Stderr = &buf
	done := make(chan error, 1)
	go func() { done <- cmd.Run() }()
	select {
	case <-done:
	case <-time.After(120 * time.Second):
		cmd.Process.Kill()
		out.Notes = append(out.Notes, "replay timed out")
	}
	out.Attempted = true
	out.Cmd = "cd " + w.RepoDir + " && go " + strings.Join(argv, " ")
	var keep []string
	for _, l := range strings.Split(buf.String(), "\n") {
		if strings.HasPrefix(l, "REPLAY-") || strings.Contains(l, "panic") || strings.HasPrefix(l, "FAIL") || strings.Contains(l, "cannot") || strings.Contains(l, "undefined") {
			keep = append(keep, l)
		}
	}
	out.Output = strings.Join(keep, "\n")
	if clause != nil {
		out.Confirmed = strings.Contains(buf.String(), "REPLAY-CLAUSE-VIOLATED") && !strings.Contains(buf.String(), "REPLAY-INPUT-OUTSIDE-PRECONDITION")
	} else {
		out.Confirmed = strings.Contains(buf.String(), "REPLAY-PANIC") || strings.Contains(buf.String(), "panic:")
	}
	return out
}
