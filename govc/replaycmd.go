package main

import (
	"bytes"
	"encoding/json"
	"fmt"
	"os"
	"os/exec"
	"path/filepath"
	"regexp"
	"strings"
)

// cmdReplay re-runs the function-level replay stored in a violation file: the
// generated in-package test is injected through -overlay together with the
// predicate functions regenerated from the contracts of the current tree.
func cmdReplay(args []string) {
	if len(args) < 1 {
		fmt.Fprintln(os.Stderr, "usage: govc replay <replay.json> [-repo dir]")
		os.Exit(2)
	}
	repo := "/repo"
	b, err := os.ReadFile(args[0])
	if err != nil {
		fmt.Fprintln(os.Stderr, err)
		os.Exit(2)
	}
	var info struct {
		Obligation string `json:"obligation"`
		Property   string `json:"property"`
		Replay     struct {
			TestSrc string `json:"test_source"`
		} `json:"replay"`
		SolverOutput string `json:"solver_output"`
		Reason       string `json:"reason"`
	}
	if err := json.Unmarshal(b, &info); err != nil {
		fmt.Fprintln(os.Stderr, err)
		os.Exit(2)
	}
	fmt.Printf("obligation: %s (property %s)\n", info.Obligation, info.Property)
	if info.Replay.TestSrc == "" {
		fmt.Printf("no function-level replay is stored for this violation (%s)\nsolver output:\n%s\n", info.Reason, info.SolverOutput)
		os.Exit(1)
	}
	ff, _ := loadFindings("/verif/known_findings.json")
	w, err := loadWorldF(repo, ff)
	if err != nil {
		fmt.Fprintln(os.Stderr, "load:", err)
		os.Exit(2)
	}
	m := regexp.MustCompile(`(?m)^package (\w+)`).FindStringSubmatch(info.Replay.TestSrc)
	scratch, _ := os.MkdirTemp("", "govc-replay")
	defer os.RemoveAll(scratch)
	ov := map[string]map[string]string{"Replace": {}}
	pkgDir := ""
	for f, s := range w.GenSrc {
		if strings.Contains(s, "\npackage "+m[1]+"\n") {
			pkgDir = filepath.Dir(f)
			tmp := filepath.Join(scratch, "zz_verif_gen.go")
			os.WriteFile(tmp, []byte(s), 0o644)
			ov["Replace"][f] = tmp
		}
	}
	if pkgDir == "" {
		fmt.Fprintln(os.Stderr, "package of the replay not found")
		os.Exit(2)
	}
	tt := filepath.Join(scratch, "zz_verif_replay_test.go")
	os.WriteFile(tt, []byte(info.Replay.TestSrc), 0o644)
	ov["Replace"][filepath.Join(pkgDir, "zz_verif_replay_test.go")] = tt
	ovb, _ := json.Marshal(ov)
	ovFile := filepath.Join(scratch, "overlay.json")
	os.WriteFile(ovFile, ovb, 0o644)
	rel := "./" + strings.TrimPrefix(pkgDir, repo+"/")
	cmd := exec.Command("go", "test", "-mod=mod", "-tags", "verif", "-overlay", ovFile, "-vet=off", "-timeout", "60s", "-count=1", "-run", "^TestVerifReplay$", "-v", rel)
	cmd.Dir = repo
	cmd.Env = append(os.Environ(), "GOFLAGS=-mod=mod", "GOPROXY=off", "GOSUMDB=off", "GOTOOLCHAIN=local")
	var buf bytes.Buffer
	cmd.Stdout = &buf
	cmd.Stderr = &buf
	cmd.Run()
	fmt.Print(buf.String())
	if strings.Contains(buf.String(), "REPLAY-CLAUSE-VIOLATED") || strings.Contains(buf.String(), "REPLAY-PANIC") {
		fmt.Printf("VIOLATION property=%s replay=%s\n", info.Property, args[0])
		os.Exit(1)
	}
	fmt.Println("replay does not violate the clause on this tree")
}
