import re,sys
lines=open(sys.argv[1]).read().split('\n')
ident=re.compile(r'[A-Za-z_][A-Za-z0-9_.!#$\[\]\-]*')
defs={};declared=set();asserts=[]
for i,l in enumerate(lines):
    if l.startswith('(define-fun '):
        rest=l[len('(define-fun '):]; sp=rest.index(' ')
        defs[rest[:sp]]=ident.findall(rest[sp:])
    elif l.startswith('(declare-const ') or l.startswith('(declare-fun '):
        declared.add(l.split()[1])
    elif l.startswith('(assert '):
        asserts.append(i)
goal=asserts[-1]
def generic(s): return s.startswith(('H0_','gs_','str_','in_','glob_','lit_')) or s=='f64_zero'
cone=set()
def add(ids):
    st=list(ids)
    while st:
        x=st.pop()
        if x in cone: continue
        if x in defs: cone.add(x); st.extend(defs[x])
        elif x in declared: cone.add(x)
def specific(ids):
    seen=set();res=set();st=list(ids)
    while st:
        x=st.pop()
        if x in seen: continue
        seen.add(x)
        if x in defs: st.extend(defs[x])
        elif x in declared and not generic(x): res.add(x)
    return res
add(ident.findall(lines[goal]))
keep={goal}
# quantified: closure
q=[i for i in asserts[:-1] if lines[i].startswith('(assert (forall') or '(forall' in lines[i][:60]]
spec={i:specific(ident.findall(lines[i])) for i in asserts[:-1]}
changed=True
while changed:
    changed=False
    for i in q:
        if i in keep: continue
        if not spec[i] or (spec[i]&cone):
            keep.add(i); add(ident.findall(lines[i])); changed=True
# implications with defined-name bodies (invariants) count as quantified-like
for i in asserts[:-1]:
    if i in keep: continue
    if spec[i] <= cone:
        keep.add(i)
out=[l for i,l in enumerate(lines) if not l.startswith('(assert ') or i in keep]
print(len(asserts), len(keep), file=sys.stderr)
open(sys.argv[2],'w').write('\n'.join(out))
