#!/usr/bin/env python3
"""Rewrites the table in DESIGN.md section 8 from /verif/seeded/*/meta.json."""
import json,glob,re
rows=[]
for f in sorted(glob.glob('/verif/seeded/*/meta.json')):
    m=json.load(open(f))
    if m['caught_by']:
        cb=', '.join(c['check'] + (" (replayed)" if c['replay_confirmed'] else "") for c in m['caught_by'])
    elif not m['applies_to_current_tree']:
        cb='— (patch no longer applies after the C17 fix; superseded by C17_b)'
    else:
        cb='NOT CAUGHT'
    fn=m['where'].split(' ',1)[1] if ' ' in m['where'] else m['where']
    rows.append(f"| {m['id']} | {fn}: {m['change'][:140]} | {cb} |")
table="| seed | change | caught by (quick checks, all claimed checks run) |\n|------|--------|-----------|\n"+"\n".join(rows)+"\n"
p='/verif/DESIGN.md'; s=open(p).read()
a=s.index('| seed | change | caught by'); b=s.index('\n\n', a)
s=s[:a]+table+s[b+1:]
open(p,'w').write(s)
print(len(rows),'rows')
