#!/usr/bin/env python3
"""Regenerates /verif/MANIFEST.json from the table below (kept in one place so the
manifest is always valid)."""
import json, subprocess
props = [json.loads(l)['id'] for l in open('/verif/properties.jsonl')]

TRUST = ("Trusted: the VC generator govc (SSA->SMT translation, memory model, loop cutting), go/ssa v0.29.0, the SMT solvers, "
         "the spec functions (written from the Intel SDM / PE-COFF spec), and the assumed contracts of library functions listed in the evidence file "
         "(strconv, strings, fmt, log, encoding/binary, ...). The PEG parsers (pigeon) and the asmdb JSON table are outside every contract.")

claimed = {
 "C07": dict(
   text="Deductive proof with a ghost state variable 'an error-level line has been logged' (log lines whose literal format starts with one of colog's error-level headers, including the two that cmd/gosk registers after the repair): TraverseAST logs one for every statement whose mnemonic has no pass-1 handler (for every content of the handler table); ocodeClient.Emit logs one, and appends nothing, whenever a line cannot be turned into an ocode (after the first repair); processDW and processDD hand exactly one value per operand to the emitter or have logged an error (loop invariant over operand lists of any length: no operand is dropped silently; after the second repair, which makes the capitalised 'Error...' lines error-level); GenerateX86 reports every ocode whose code generation returns an error (ghost variable for the callee's failure); handleLGDT returns an error for a wrong operand count, an operand that is not bracketed and a label that is not in the symbol table; main registers those headers.",
   note=TRUST + " PARTIAL: the other pass-1 handlers (instruction operand shapes), undefined jump targets (placeholder entries are never checked), and the link to the exit status are not decided. TraverseAST's mode clause and frame are trusted, its panic sites not analysed. Two fix commits belong to this property.",
   design="DESIGN.md section 4, C07"),
 "C01": dict(
   text="Deductive proofs over the real encoders, in three layers. (1) Leaf encoders: GetRegisterNumber (SDM numbers of general, segment, control registers), ModRMByOperand/ModRMByValue (mod=11 | reg<<3 | rm with the operands in their roles or the /digit; for memory operands the ModR/M byte, the SIB byte exactly when the ModR/M byte calls for one, then the displacement - this clause found the dropped 00 SIB byte, repaired), calculateModRM (C02 clause plus no-SIB and displacement-length clauses), ResolveOpcode (loop invariant: every opcode byte is the value of its two hex digits, +r adds the register number to the last one), getImmediateValue (low size*8 bits little-endian), GenerateModRM (routes the operands and the digit a table row names to the builders). (2) Instruction handlers generateArithmeticCode (ADD/SUB/CMP), generateLogicalCode (AND/OR/XOR/SHR/SHL/SAR), handleNOT, handleIMUL, handleMOV: the bytes are exactly [66h][67h] (as Require66h/Require67h answer for the operands in the context's mode, either order, no 66h for control-register moves) + the opcode bytes of the chosen row (+r register of the operand the row names) + the ModR/M part made of the same row, the same operands and the mode (for MOV moffs forms the mode-sized address) + the immediate made of the operand the row names in the row's size (for MOV also a label address), and nothing else, via a ghost log of the calls each handler makes; handlePUSH/handlePOP (50+r/58+r, segment-register opcodes, FF /6 and 8F /0 with the ModR/M layout, PUSH imm = 6A ib exactly for -128..127 else 68 iw/id by mode), handleLGDT (0F 01 /2 with the label address), handleIN/OUT, handleINT, handleRET. (3) The 144-entry table of operand-less mnemonics is checked entry by entry (package initialiser executed symbolically) against an SDM transcription: 38 proved, REP repaired, four regions recorded. Plus the hand-written table rows (MOV with segment/control registers - one row repaired -, IN/OUT, PUSH/POP) and the prefix rules Require67h (exact) / Require66h (two regions recorded).",
   note=TRUST + " PARTIAL: that FindEncoding returns the row an assembler should choose for the operands is assumed together with the JSON table (A3; the handlers are proved for whatever well-formed row comes back - asmdb.SpecRowOK is a trusted clause); the operand text parser is assumed (A1, A2), the string handed to it (strings.Join) is not checked; table-driven indexing in the handlers is not shown panic-free; 64-bit register names are excluded (A16, recorded finding); three-operand IMUL source forms are not decided. Findings recorded: 64-bit names numbered like 32-bit ones; the five C02 regions; four operand-less regions (multi-byte encodings cut to one byte, missing 66h, mnemonics that need operands, 64-bit-only mnemonics); two 66h regions.",
   design="DESIGN.md section 4, C01"),
 "C03": dict(
   text="Deductive proofs tying the two independent size computations to one specification each: (a) memory operands - pass 1's CalcOffsetByteSize/CalcSibByteSize and the emitter's calculateModRM are both proved, for every operand and both modes, to produce the number of displacement bytes and the SIB presence given by one SDM-derived size function of the operand (so they agree wherever both proofs hold; six input regions where the current tree disagrees are recorded findings); (b) data directives - processDB/DW/DD/RESB/ALIGNB advance LOC by exactly the number of bytes handleDB/DW/DD/RESB/ALIGNB emit for the values handed over (loop invariants, any list length); (c) jumps - estimateJumpSize/getOffsetSize size classes; (d) the origin reaches code generation unchanged (SetDollarPosition, Pass2.Eval) and `$`/label values are read from the table pass 1 filled (ImmExp.Eval, SetSymbolTable); (e) GetOutputSize is the row's byte count (opcode-length finding recorded); (f) emitter-side instruction length: the handlers' layout.len clauses (sum of prefix, opcode, ModR/M and immediate parts), ResolveOpcode.len, the ModR/M layout clause, one byte for every operand-less table mnemonic. (g) pass-1 instruction size: FindMinOutputSize is the byte count of the row FindEncoding returns for the same mnemonic and operands plus one byte per prefix Require66h/67h ask for plus CalcOffsetByteSize plus CalcSibByteSize, nothing else (ghost call log); the pass-1 handlers for ADD/ADC/SUB/SBB/CMP/INC/DEC/NEG/MUL/DIV/IDIV, AND/OR/XOR/shifts, NOT, MOV, OUT, IN, PUSH/POP, INT, RET, LGDT and the operand-less mnemonics advance LOC by exactly that size (INT 2 - INT 3 was sized 1, repaired -, RET and operand-less 1, LGDT 3+displacement) for the mode in force and emit one ocode, or leave LOC alone; (h) a label statement stores the location counter under the label's name and does not move it (TraverseAST.ensures.label.*).",
   note=TRUST + " PARTIAL: the summation over the statements of a program (the loop of TraverseAST over Program.Statements and the dispatch through the handler table) is only used through a trusted frame contract; that pass 1 and the emitter see equal operand objects (parsed twice across the text hop) is assumed; FindMinOutputSize/GetPrefixSize (prefix bytes) and the per-instruction pass-1 handlers are not under contract (seen end to end, outside every obligation: MUL/DIV/IDIV with an operand are sized from the table by pass 1 and emitted as one byte); the jump size estimate is known to disagree with emission (C04 findings).",
   design="DESIGN.md section 4, C03"),
 "C08": dict(
   text="Deductive proof over the real COFF writer. CoffFormat.Write (layout arithmetic with loop invariants for any number of symbols): the symbol table starts at 20+3*40+len(code), the header's symbol count is the number of 18-byte records (main + auxiliary, recursive spec) actually appended, the buffer handed to the file is 140+len(code)+18*count+4+len(strings) bytes long, the string-table size field is len(strings)+4, header values (machine 0x14c, 3 sections, no optional header) and section header values (.text size = code size at offset 140, .data/.bss empty, names) are as specified, exactly one write on success. generateSymbolEntries / convertNameToBytes: fixed symbols and their auxiliary records, every record announces exactly the auxiliary records that follow, user symbols are externals of section 0 or 1, entry count, name fields inline or as a string-table offset that points at the name (data-structure invariant over all keys of the de-duplication map).",
   note=TRUST + " PARTIAL: the bytes struc.PackWithOptions produces for a header or symbol record are not modelled (only their number: assumed library contract), so 'the header bytes on disk equal the header values' rests on struc; sort.SliceStable is modelled (permutation + ordered by the comparator). At most 65536 names of at most 4096 bytes (A14), code below 1 GiB (A17).",
   design="DESIGN.md section 4, C08/C09"),
 "C09": dict(
   text="Deductive proof over the real generateSymbolEntries/convertNameToBytes: after the stable sort, user symbols are ordered with undefined ones last and defined ones by value (for every comparator result, through a contract-level model of sort.SliceStable); the element that ends at position a came from declaration position p(a) (ghost permutation) and carries that name (inline if short), section 1 and the label's symbol-table value if the name is defined, section 0 and value 0 otherwise; long names are recoverable through the string table (convertNameToBytes contract: offset points at the name, the table only grows, remembered offsets stay valid); the [FILE] name is in the .file auxiliary record. frontend.Exec hands the same machine code to either writer (format clause).",
   note=TRUST + " The .text raw data is proved byte-identical to ctx.MachineCode (Write.final.text), the same slice the flat-binary path writes (Exec.ensures.raw). PARTIAL: 'exactly once' needs duplicate-free GLOBAL lists (pass 1, behind the trusted TraverseAST contract). Known finding: a [FILE] name longer than 18 bytes is cut off.",
   design="DESIGN.md section 4, C08/C09"),
 "C04": dict(
   text="Deductive proof over the real handleJcc/handleCALL/getOffsetSize: for every target, position, mode and all 31 jump kinds, the emitted bytes are exactly one branch instruction of the named class/condition (independent SDM decoder) whose sign-extended displacement equals target-(address+length) as integers, so a displacement that does not fit is never silently wrapped. Eleven input regions where the current tree violates this (rel8 lower boundary, rel16/rel32 forms without 66h, off-by-one length, truncation beyond 2^31) are recorded as known findings, excluded, and re-confirmed on every run.",
   note=TRUST + " The jump target string is what pass 2 substituted (text hop, A5); strconv.ParseInt is an assumed library contract. Routing of ocode kinds to the handlers and the pass-1 size side are covered under C01/C03 when claimed.",
   design="DESIGN.md section 4, C04"),
 "C05": dict(
   text="Deductive proof with loop invariants (unbounded operand lists): handleDB/DW/DD emit, in operand order, the little-endian low 8/16/32 bits of each operand value; handleRESB emits n zero bytes; handleALIGNB pads with zeros to the next multiple of n of the current address; pass-1 processDB/DW/DD advance LOC by exactly 1/2/4 times the number of values they hand to the emitter, processRESB/ALIGNB/ORG update LOC as specified and ORG emits nothing (frame clauses).",
   note=TRUST + " The text hop from pass 1 to the ocode list (fmt.Sprintf / strings.Split) is assumed (A5). Known finding: ALIGNB pads the emitted length, not the address, when the origin is not a multiple of n.",
   design="DESIGN.md section 4, C05"),
 "C16": dict(
   text="Deductive proof: (relational, two executions of the real handleJcc/handleCALL) shifting the target and the origin by the same delta leaves the emitted branch bytes unchanged; processORG sets LOC and the origin to the ORG value and nothing else (frame), and without ORG both are zero-initialised; processORG emits nothing.",
   note=TRUST + " Covers the branch and ORG functions; that every label value equals origin+offset is C03's obligation. Hand-off of the origin through frontend.Exec/pass2 is listed under not-yet-covered in the evidence.",
   design="DESIGN.md section 4, C16"),
 "C18": dict(
   text="Deductive proof over the real selection code: the two comparators handed to lo.MinBy (findBestEncodingForSignExtendable / ...NonSignExtendable) return true exactly as a shortest-valid-encoding order requires (sound and complete clauses against an independent size/validity spec), GetOutputSize equals the row's byte count, ImmediateValueFitsInSigned8Bits is exactly -128..127 on the first immediate operand, getImmediateSizeType has the signed 8/16/32 thresholds, isSignExtendable is the ALU group, registerToPushPopCode gives the +r register numbers.",
   note=TRUST + " lo.MinBy (left fold with the comparator) and the candidate set coming from the asmdb JSON table are assumed (A3, A7); opcode-length findings recorded.",
   design="DESIGN.md section 4, C18"),
 "C19": dict(
   text="Deductive proof of the control-flow part of the command-line contract on the real main and frontend.Exec: every process exit has code 0, 16, 17 or -1; fewer than two arguments exit 16; a source that cannot be stat'ed exits 17; an output file that cannot be opened exits 17 before anything is assembled; every failing exit prints a message; the destination is opened with O_CREATE|O_TRUNC; no exit path of Exec with a non-zero status has written the image, and the raw-binary path writes ctx.MachineCode exactly once. os.Exit, os.OpenFile, os.Stat, (*os.File).Write are modelled as ghost events (assumed library contracts).",
   note=TRUST + " NOT decided: the Shift_JIS/UTF-8 clause (x/text decoders and the PEG parser are outside every contract); the WCOFF branch's single write is CoffFormat.Write's clause once; pass1.TraverseAST is used through a trusted frame contract.",
   design="DESIGN.md section 4, C19"),
 "C06": dict(
   text="Deductive proof with loop invariants against recursive spec functions: MultExp.Eval's result, when it reduces to a number, is the left-to-right fold of * / % (64-bit, division truncating toward zero, remainder with the dividend's sign, zero divisors not reduced) over the values its children evaluate to; AddExp.Eval folds all constant terms joined by + and - from left to right into one number; ImmExp.Eval gives decimal literals their value, `$` the location counter and an EQU name the evaluation of its stored body. The fold loops are proved for operand lists of any length.",
   note=TRUST + " PARTIAL: that * / % bind tighter than + -, parentheses, literal syntax and spacing are decided by the PEG grammar (pigeon), outside every contract (A1). Evaluation of a child node is treated as a function of node and environment (interface contract on Exp.Eval, assumed for all implementations). Completeness direction (every all-constant tree does reduce) is not proved for MultExp.",
   design="DESIGN.md section 4, C06"),
 "C11": dict(
   text="Deductive proof: an identifier that names an EQU evaluates to exactly what its stored body evaluates to (ImmExp.Eval macro clause), and the evaluation functions write nothing that existed before the call (frame obligations on MultExp/AddExp/ImmExp.Eval: stored macro bodies and the parse tree are never modified by using them), so a name and its parenthesised body are the same value to every consumer.",
   note=TRUST + " PARTIAL: that an EQU statement emits nothing and stores Eval(body) is in TraverseAST, which is used through a trusted frame contract; the textual side (PEG) is assumed (A1).",
   design="DESIGN.md section 4, C11"),
 "C10": dict(
   text="Frame obligations proved on the real code: the per-statement code generation (processOcode), the driver (GenerateX86) and pass 2 write nothing but freshly allocated memory, the code generation context's MachineCode/VS/BitMode and the ocode list (assigns clauses checked against every store, callees by contract or by inferred write sets); the expression evaluators write nothing pre-existing; a whole-program scan from frontend.Exec (through interfaces and function values) finds no store into any package-level variable; the destination is opened with O_CREATE|O_TRUNC; nothing is keyed on map iteration (no Range/Next instruction is accepted by the translator).",
   note=TRUST + " TraverseAST's frame is a trusted contract; CoffFormat.Write is abstracted by an inferred write set; determinism of text/template, pigeon and colog is assumed.",
   design="DESIGN.md section 4, C10"),
 "C14": dict(
   text="Frame obligations: what a statement's code generation may change is only fresh memory (plus the variant stack for L), so the bytes of one statement cannot influence another's except through the documented inputs (mode, symbol table, position); every ocode carries the mode it was written under (Emit) and GenerateX86 encodes it under that mode; pass 2 hands the symbol table itself to the template engine.",
   note=TRUST + " The read side (a handler reads only its ocode, mode, symbols, position) is implied by the handlers' signatures plus the no-package-state scan of C10; handlers that go through the operand parser are abstracted with inferred write sets.",
   design="DESIGN.md section 4, C14"),
 "C13": dict(
   text="For every function under contract, under its stated precondition, no run-time panic site (nil dereference, index/slice bounds, failed type assertion, integer division by zero, nil-map write, make with bad length, explicit panic) is reachable: one SMT obligation per site, generated automatically from the SSA. Known genuine panics (INT with a non-decimal or out-of-range operand, absurd RESB/ALIGNB sizes) are recorded findings.",
   note=TRUST + " PARTIAL: covers the functions under contract only (listed in the evidence); arbitrary bytes through the pigeon parsers, stack depth and complexity are not decided. Panic sites inside callees that were abstracted (inferred frames) are not analysed.",
   design="DESIGN.md section 4, C13"),
 "C17": dict(
   text="After the repair (fix commit): every ocode records the BITS mode in force when its statement was traversed (Emit stamps the client's current mode; SetBitMode updates it), GenerateX86 switches the context to the recorded mode before encoding each statement (call-site clause), and Exec initialises both copies of the mode to 16.",
   note=TRUST + " That the [BITS n] case of TraverseAST calls SetBitMode with the directive's value is inside the trusted TraverseAST contract.",
   design="DESIGN.md section 4, C17"),
 "C02": dict(
   text="Deductive proof, for all inputs, that the real calculateModRM (the only producer of mod/rm/SIB/displacement) emits bytes that an independent SDM decoder maps back to exactly the written base, index, scale and displacement at the address size implied by the registers, in both modes; obligations are generated from /repo's SSA on every run and discharged by z3/cvc5. Five recorded input regions where the current tree violates the clause are excluded as known findings and re-confirmed on every run.",
   note=TRUST + " Operand text -> MemoryInfo (PEG) is assumed (A2).",
   design="DESIGN.md section 4, C02"),
}

reasons_na = {
 "C12": "comments/spacing/line endings are decided by PEG grammar data interpreted by pigeon's generic engine; no function contract in gosk's own code expresses it (DESIGN.md section 4, C12)",
 "C15": "renaming invariance is a two-run relational property through PEG parsers and text/template; nothing name-dependent is arithmetic except COFF name fields, which are decided under C08/C09 (DESIGN.md section 4, C15)",
}

def hooks_commits():
    out = subprocess.run(["git","-C","/repo","log","--format=%H %s"],capture_output=True,text=True).stdout
    return [l.split()[0] for l in out.splitlines() if l.split(' ',1)[1].startswith('verif:')]

m = {
 "version": 1,
 "setup_cmd": "cd /verif/govc && GOFLAGS=-mod=mod GOPROXY=off GOSUMDB=off GOTOOLCHAIN=local go build -o ../bin/govc .",
 "hooks": {"guard": "verif", "enable": "-tags verif (contract files verif_contracts.go: clause comments and spec functions only; loop-invariant ghost calls are inserted in an in-memory overlay by govc, never in /repo)",
           "baseline_off_cmd": "cd /repo && go test -mod=mod -json -vet=off -count=1 -timeout 25m ./...",
           "source_commits": hooks_commits(), "add_only": True},
 "engines": [{"name": "govc", "path": "/verif/govc", "serves_properties": sorted(claimed), "kind_free_text": "self-written weakest-precondition / VC generator over go/ssa of the real functions in /repo, contracts as //@ comments + spec functions behind build tag verif, obligations discharged by z3 5.1.0 / cvc5 1.0 / z3 4.8.12"}],
 "checks": [],
 "notes": "See DESIGN.md. Known genuine defects are listed in /verif/known_findings.json (regions per obligation).",
 "not_applicable": [],
}
for p in props:
    if p in claimed:
        c = claimed[p]
        m["checks"].append({"property_id": p, "quick_cmd": f"./check {p} quick", "thorough_cmd": f"./check {p} thorough",
            "evidence_file": f"/verif/evidence/{p}.json", "replay_cmd_template": "./check --replay {path}", "engine": "govc",
            "level_claimed": {"category": "proof", "text": c["text"], "design_ref": c["design"]},
            "level_note": c["note"], "technique": "contract-based deductive verification: VCs generated from go/ssa of the real functions, discharged by SMT (z3/cvc5)"})
    else:
        m["not_applicable"].append({"property_id": p, "reason": reasons_na.get(p, "not yet claimed: contracts for this property are still being written (engine tiers, DESIGN.md section 3)")})
json.dump(m, open('/verif/MANIFEST.json','w'), indent=1)
print("claimed:", sorted(claimed))
