#!/bin/bash
# usage: seed_matrix.sh [seed-id ...]
# For each seeded change: scratch worktree of /repo's HEAD under /tmp, patch applied there, every claimed check
# run with -repo <worktree> (evidence/replays go to a scratch dir, never to /verif/evidence), worktree removed.
# Output: one line per seed "SEED <id> caught-by: Cxx(n,confirmed=m) ..." ; results also in /verif/seeded/<id>/caught_by.txt
export GOFLAGS=-mod=mod GOPROXY=off GOSUMDB=off GOTOOLCHAIN=local
cd /verif
CLAIMED=${CHECKS:-$(python3 -c "import json;print(' '.join(c['property_id'] for c in json.load(open('MANIFEST.json'))['checks']))")}
SEEDS=${@:-$(ls seeded)}
PAR=${PAR:-3}
one() {
  s=$1
  WT=/tmp/seedwt_$s; OUT=/tmp/seedout_$s
  rm -rf $WT $OUT; mkdir -p $OUT
  git -C /repo worktree add -q --detach $WT HEAD 2>/dev/null || { echo "SEED $s worktree failed"; return; }
  if ! git -C $WT apply /verif/seeded/$s/patch.diff 2>/dev/null; then
    echo "SEED $s patch-does-not-apply"; echo "patch does not apply to the current tree" > /verif/seeded/$s/caught_by.txt
  else
    HIT=""
    for p in $CLAIMED; do
      R=$(bin/govc check -repo $WT -prop $p -tier quick -kf /verif/known_findings.json -evidence $OUT -replays $OUT/replays 2>&1)
      if echo "$R" | grep -q "^VIOLATION"; then
        N=$(echo "$R" | grep -c "^VIOLATION"); NF=$(echo "$R" | grep "^VIOLATION" | grep -c "no-failing-input-found")
        HIT="$HIT $p($N,confirmed=$((N-NF)))"
        echo "$R" | grep -E "^(VIOLATION|FAILED|  )" | head -12 > $OUT/$p.txt
      fi
    done
    echo "SEED $s caught-by:${HIT:- NONE}"
    if [ -n "$MERGE" ] && [ -f /verif/seeded/$s/caught_by.txt ]; then
      # MERGE=1: keep the recorded results of the checks that were not run this time
      KEEP=""
      for w in $(cat /verif/seeded/$s/caught_by.txt); do
        q=${w%%(*}; case " $CLAIMED " in *" $q "*) ;; *) [ "$w" != NONE ] && [[ $w == C* ]] && KEEP="$KEEP $w";; esac
      done
      HIT=$(printf '%s\n' $KEEP $HIT | sort | tr '\n' ' '); HIT=" ${HIT% }"; [ "$HIT" = " " ] && HIT=""
    fi
    echo "${HIT:- NONE}" > /verif/seeded/$s/caught_by.txt
  fi
  git -C /repo worktree remove --force $WT 2>/dev/null; rm -rf $WT $OUT
  git -C /repo worktree prune
}
export -f one; export CLAIMED MERGE
printf '%s\n' $SEEDS | xargs -P $PAR -I{} bash -c 'one {}'
