#!/bin/bash
# usage: smtval.sh file.smt2 term... : ask z3-new for a model and print the values of the terms
f=$1; shift
(echo '(set-option :produce-models true)'; grep -v '^(check-sat)' $f; echo '(check-sat)'; echo "(get-value ($*))") > /tmp/smtval_$$.smt2
timeout ${T:-200} z3-new /tmp/smtval_$$.smt2; rm -f /tmp/smtval_$$.smt2
