#!/bin/bash
# usage: run_seeds.sh [seed-id ...]   runs, for each seeded change, every claimed check and reports which ones raise a VIOLATION
cd /verif
CLAIMED=$(python3 -c "import json;print(' '.join(c['property_id'] for c in json.load(open('MANIFEST.json'))['checks']))")
SEEDS=${@:-$(ls seeded)}
for s in $SEEDS; do
  [ -f seeded/$s/patch.diff ] || continue
  git -C /repo apply /verif/seeded/$s/patch.diff || { echo "$s: patch does not apply"; continue; }
  HIT=""
  OWN=${s%%_*}
  LIST="$CLAIMED"
  if [ -z "$ALLCHECKS" ]; then LIST=""; for p in $CLAIMED; do if [ "$p" = "$OWN" ] || echo " $EXTRA " | grep -q " $p "; then LIST="$LIST $p"; fi; done; fi
  for p in $LIST; do
    OUT=$(./check $p quick 2>&1); RC=$?
    if echo "$OUT" | grep -q "^VIOLATION"; then
      N=$(echo "$OUT" | grep -c "^VIOLATION"); NF=$(echo "$OUT" | grep "^VIOLATION" | grep -c "no-failing-input-found")
      HIT="$HIT $p($N,confirmed=$((N-NF)))"
    fi
  done
  git -C /repo apply -R /verif/seeded/$s/patch.diff || echo "WARNING: cannot reverse $s"
  echo "SEED $s caught-by:${HIT:- NONE}"
done
