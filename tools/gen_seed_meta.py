#!/usr/bin/env python3
"""Writes /verif/seeded/<id>/meta.json from the table below plus caught_by.txt (result of tools/seed_matrix.sh)."""
import json, os, re
T = {
 "C01_a": ("C01","internal/codegen/x86gen_utils.go calculateModRM","disp8 upper bound 127 -> 0x80: a displacement of exactly +128 is emitted as disp8 0x80 (= -128)","a memory operand with displacement exactly 128, e.g. MOV AX,[BX+128]"),
 "C01_b": ("C01","internal/codegen/x86gen_pushpop.go registerToPushPopCode","the +r code is taken from GetRegisterNumber, so FS/GS (segment numbers 4/5) are accepted as 50+rd/58+rd operands: PUSH FS assembles to PUSH SP's opcode","PUSH/POP with operand FS or GS"),
 "C02_a": ("C02","internal/codegen/x86gen_utils.go calculateModRM + new helper encodeDisplacement","shared helper picks the full displacement width from the BITS mode instead of the addressing form: 32-bit addressing in 16-bit mode gets disp16 under mod=10","[BITS 16] MOV AX,[EBX+0x1234] or [BITS 32] with 16-bit address registers"),
 "C03_a": ("C03","pkg/ng_operand/operand_impl.go CalcOffsetByteSize","disp8 range check made strict at the lower bound: displacement -128 is sized as disp16/32 in pass 1 while the emitter uses disp8","an instruction with [reg-128] followed by a label that is referenced"),
 "C03_b": ("C03","pkg/ng_operand/operand_impl.go CalcSibByteSize","any EBP-based operand is treated as SIB-free, so [EBP+index*s] is sized one byte short","[BITS 32] MOV EAX,[EBP+ESI*4+8] followed by a referenced label"),
 "C04_a": ("C04","internal/codegen/x86gen_jmp.go handleJcc","high byte of the Jcc rel16 displacement taken from relativeOffset instead of relativeOffset-4: jump lands 256 bytes off when the low byte borrows","a 16-bit near Jcc whose (target-address)&0xff < 4"),
 "C05_a": ("C05","internal/pass1/pass1_inst_pseudo.go processDB","string operand iterated as runes instead of bytes: a non-ASCII byte becomes U+FFFD / several values","DB with a string containing a byte >= 0x80"),
 "C05_b": ("C05","internal/codegen/x86gen_pseudo.go handleDW","operand parsed with ParseUint(...,16): negative or >65535 operands (label differences, negative numbers) become 0","DW -1 or DW with a value outside 0..65535"),
 "C06_a": ("C06","internal/ast/ast_exp_impl.go MultExp.Eval + helper truncDivMod","remainder gets the sign of the quotient instead of the dividend","-7 % 2 or 7 % -2 in a constant expression"),
 "C07_a": ("C07","internal/pass1/traverse.go TraverseAST (OpcodeStmt)","operand-less mnemonics without a pass-1 handler are routed to processNoParam instead of logging 'error: No handler found'; codegen then drops them silently","an operand-less mnemonic that has no handler (e.g. a misspelt or unsupported one)"),
 "C07_b": ("C07","internal/codegen/x86gen.go GenerateX86","the line that reports a failed ocode is reworded ('error processing ocode ...') and loses its 'error: ' header: colog prints it at info level","any statement whose code generation fails (IN BX,DX; POP CS; OUT 0x300,AL)"),
 "C07_c": ("C07","internal/pass1/traverse.go TraverseAST (MnemonicStmt)","handler lookup factored into dispatchOpcode(...) bool; the MnemonicStmt branch ignores the result, so 'error: No handler found' is gone for mnemonics with operands","a mnemonic with operands that has no pass-1 handler (XCHG, TEST, LEA, LOOP, MOVZX, ...)"),
 "C08_a": ("C08","internal/filefmt/coff.go convertNameToBytes","the de-duplication map records the content-relative offset (without the 4-byte size field): the second use of the same long name gets an offset 4 too small","two symbols (or one GLOBAL + one EXTERN) with the same name longer than 8 bytes"),
 "C08_b": ("C08","internal/filefmt/coff.go generateSymbolEntries","NumberOfAuxSymbols of .file derived from the [FILE] name length while still one 18-byte record is written: record count and chain are wrong","[FILE] name longer than 18 bytes, WCOFF"),
 "C09_a": ("C09","internal/filefmt/coff.go generateSymbolEntries (sort comparator)","comparator orders by (SectionNumber, Value): undefined symbols (section 0) sort first instead of last","WCOFF with at least one undefined GLOBAL/EXTERN and one defined symbol"),
 "C09_b": ("C09","internal/pass1/pass1_inst_pseudo.go processDW","DW <label> advances LOC by 4 while 2 bytes are emitted: later labels (and COFF symbol values) are 2 too large","DW with a label operand followed by a GLOBAL label"),
 "C10_a": ("C10","internal/filefmt/coff.go","string-table de-duplication map hoisted to a package-level variable: a second Write in the same process reuses offsets of the first","two COFF outputs with long names from one process (library use / tests)"),
 "C11_a": ("C11","internal/ast/ast_exp_impl.go MultExp.Eval","the evaluated head NumberExp is reused as accumulator: evaluating an expression mutates the stored body of an EQU","X EQU 2 / DB X*3 / DB X"),
 "C13_a": ("C13","internal/pass1/pass1_inst_pseudo.go processALIGNB","positivity check done on the int64 value before narrowing to int32: ALIGNB 0x100000000 passes the check and divides by zero","ALIGNB with a multiple of 2^32"),
 "C14_a": ("C14","pkg/asmdb/instruction_search.go FindEncoding","results memoised in a package-level map whose key omits IsIndirectMemory: MOV AX,[0x10] after MOV AX,[BX] reuses the wrong encoding","two MOVs of the same types, one direct one indirect"),
 "C16_a": ("C16","internal/pass2/eval.go Pass2.Eval","in 16-bit mode the template gets a copy of the symbol table masked with 0xFFFF","ORG above 64 KiB or label values >= 0x10000 in 16-bit mode"),
 "C17_a": ("C17","internal/ocode_client/client.go SetBitMode","(written against the tree before the C17 fix) early return when the mode equals a field that was never updated","[BITS 32] after statements; superseded by C17_b on the fixed tree"),
 "C17_b": ("C17","internal/codegen/x86gen.go GenerateX86","the per-ocode mode switch compares with a cached mode that is never refreshed: after the first switch the context never switches back","[BITS 16] MOV AX,1 / [BITS 32] MOV EAX,1 gives 66 B8 ... for the second"),
 "C01_c": ("C01","pkg/asmdb/instruction_table_fallback.go addMovFallbackEncodings","the hand-written row MOV CRn,r32 (0F 22 /r) has its Reg/Rm operand indices swapped: MOV CR3,EDX assembles to 0F 22 D3 (= MOV CR2,EBX)","MOV to a control register with CR number != register number (tests pin only MOV CR0,EAX)"),
 "C01_d": ("C01","pkg/ng_operand/operand_types.go getImmediateSizeType","imm16 upper bound 32767 -> 0xffff: immediates 0x8000..0xFFFF are classed imm16, which Require66h reads as operand size: [BITS 32] MOV EAX,0xFFFF gets a stray 66h","32-bit operation with an immediate in 0x8000..0xFFFF"),
 "C08_c": ("C08","internal/filefmt/coff.go CoffFormat.Write","the in-loop record counter is replaced by 4*2+len(ctx.SymTable): header NumberOfSymbols is wrong with local labels, undefined or duplicate GLOBALs","WCOFF source with a non-GLOBAL label or an undefined GLOBAL"),
 "C08_d": ("C08","internal/filefmt/coff.go CoffFormat.Write","string table size field rounded up to an even number although no pad byte is written","WCOFF whose string table has odd length (one long name of even length)"),
 "C18_a": ("C18","pkg/ng_operand/operand_impl.go ImmediateValueFitsInSigned8Bits","lower bound -128 excluded: ADD AX,-128 uses the imm16 form","ALU instruction with immediate exactly -128"),
 "C19_a": ("C19","internal/frontend/frontend.go Exec","O_TRUNC dropped from the OpenFile flags: a shorter output leaves the tail of an older file","re-assembling to an existing, longer output file"),
 "C01_e": ("C01","internal/codegen/x86gen_pushpop.go handlePUSH","imm8 range check widened to -128..0xFF: PUSH 200 takes the short form 6A C8, which pushes the sign-extended value -56 (and is one byte shorter)","PUSH with an immediate in 128..255"),
 "C01_f": ("C01","pkg/asmdb/instruction_table_fallback.go addMovFallbackEncodings","the hand-written row MOV r32,CRn (0F 20 /r) has its Reg/Rm operand indices swapped: MOV ECX,CR0 assembles to 0F 20 C8 (= MOV EAX,CR1)","MOV from a control register where register number and CR number differ"),
 "C03_c": ("C03","pkg/ng_operand/operand_impl.go CalcOffsetByteSize","the special case for a bare [BP] in 16-bit mode (mandatory disp8 = 0) is removed: pass 1 sizes MOV AX,[BP] as 2 bytes while 3 are emitted, every later label is 1 too low","16-bit code with [BP] without displacement followed by a referenced label"),
 "C07_d": ("C07","internal/codegen/x86gen_lgdt.go handleLGDT","an LGDT operand that is not in the symbol table falls back to strconv.Atoi with the error ignored: LGDT [typo] assembles to LGDT [0] with no diagnostic","LGDT with an undefined label"),
}
for sid,(prop,where,what,needs) in T.items():
    d=f'/verif/seeded/{sid}'
    if not os.path.isdir(d): continue
    cb=open(d+'/caught_by.txt').read().strip() if os.path.exists(d+'/caught_by.txt') else ''
    caught=re.findall(r'(C\d\d)\((\d+),confirmed=(\d+)\)', cb)
    meta={"id":sid,"breaks_property":prop,"where":where,"change":what,"needs_to_manifest":needs,
          "origin":"independent sub-agent given only the property text and a scratch worktree; reviewed and reproduced by the author of /verif",
          "confirmed":{"suite_passes_with_patch":True,"demonstration":"demo/ (inputs, before/after bytes; see SEED_REPORT.md)","reproduced":True},
          "applies_to_current_tree": "does not apply" not in cb,
          "caught_by":[{"check":c,"violations":int(n),"replay_confirmed":int(k)} for c,n,k in caught],
          "caught": bool(caught),
          "how_run":"tools/seed_matrix.sh: scratch worktree of /repo HEAD under /tmp, git apply patch.diff, every claimed check with -repo <worktree>, worktree removed"}
    json.dump(meta,open(d+'/meta.json','w'),indent=1)
print("meta written")
