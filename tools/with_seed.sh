#!/bin/bash
# usage: with_seed.sh <seed-id> <command...>  : applies /verif/seeded/<id>/patch.diff to /repo, runs the command, reverses the patch
P=/verif/seeded/$1/patch.diff; shift
git -C /repo apply "$P" || { echo "patch does not apply"; exit 3; }
"$@"; RC=$?
git -C /repo apply -R "$P" || echo "WARNING: could not reverse patch"
exit $RC
